#!/bin/bash
# tools_seed.sh <id> <property> <agent worktree>: archive a seeded change under
# /verif/seeded/<id>/, verify it in a fresh scratch worktree of /repo's HEAD
# (compiles, existing suite passes, demo fails with / passes without), then
# apply it to /repo, run the property's quick check (and thorough if quick
# misses), and undo it.
set -u
id=$1; prop=$2; wt=$3
export GOFLAGS=-mod=mod GOPROXY=off GOSUMDB=off GOTOOLCHAIN=local
out=/verif/seeded/$id; mkdir -p $out
cd $wt || exit 2
demo=$(git status --short | awk '/^\?\?/ {print $2}' | grep zz_seeded_demo_test.go | head -1)
git diff -- . > $out/patch.diff
cp $demo $out/zz_seeded_demo_test.go
demodir=$(dirname $demo)
echo "demo=$demo"
scratch=$(mktemp -d /tmp/vseed-XXXX); rmdir $scratch
git -C /repo worktree add -q --detach $scratch HEAD || exit 2
cd $scratch
res="{}"
if ! git apply -3 $out/patch.diff 2>/tmp/apply.err; then echo "APPLY-FAILED"; cat /tmp/apply.err; git -C /repo worktree remove --force $scratch; exit 3; fi
git reset -q   # keep changes in the working tree only
build=$(go build ./... 2>&1 && echo BUILD-OK)
suite=$(go test -vet=off -count=1 ./... 2>&1 | grep -v "^ok\|no test files" | head -5)
cp $out/zz_seeded_demo_test.go $demodir/
demo_with=$(go test -vet=off -count=1 -run 'Seeded' ./$demodir/ 2>&1 | tail -1)
git apply -R $out/patch.diff
demo_without=$(go test -vet=off -count=1 -run 'Seeded' ./$demodir/ 2>&1 | tail -1)
echo "build: $build"; echo "suite-nonok: [$suite]"; echo "demo with change: $demo_with"; echo "demo without: $demo_without"
# now against the checks: they are pointed at the scratch worktree with the
# change applied (VERIF_REPO), so /repo itself is never modified
rm -f $demodir/zz_seeded_demo_test.go
git apply $out/patch.diff
cd /verif
q=$(VERIF_REPO=$scratch timeout 900 ${VCHECK:-./bin/vcheck} run --property $prop --tier quick --no-evidence 2>&1 | grep "^VIOLATION\|^  obligation\|^INCONCLUSIVE\|exit=" | cut -c1-260)
echo "QUICK: $q"
caught=quick
if ! echo "$q" | grep -q "^VIOLATION"; then
  t=$(VERIF_REPO=$scratch timeout 1200 ${VCHECK:-./bin/vcheck} run --property $prop --tier thorough --no-evidence 2>&1 | grep "^VIOLATION\|^  obligation\|^INCONCLUSIVE\|exit=" | cut -c1-260)
  echo "THOROUGH: $t"
  caught=thorough
  echo "$t" | grep -q "^VIOLATION" || caught=missed
fi
cd /; git -C /repo worktree remove --force $scratch
echo "RESULT $id $prop caught=$caught"
python3 - "$id" "$prop" "$demo" "$build" "$suite" "$demo_with" "$demo_without" "$caught" <<'PY'
import json,sys
id,prop,demo,build,suite,dw,dwo,caught=sys.argv[1:9]
meta={"id":id,"property":prop,"demo_file":demo,"verified":{"build":build,"existing_suite_failures":suite,"demo_with_change":dw,"demo_without_change":dwo},
      "what_i_ran":"scratch worktree of /repo HEAD: git apply patch.diff; go build ./...; go test -vet=off -count=1 ./...; demo with and without the change; then the property's quick check (thorough if quick is silent) against that worktree (VERIF_REPO) or against /repo with the patch applied and undone",
      "detected_by":caught}
p='/verif/seeded/%s/meta.json'%id
try: old=json.load(open(p))
except Exception: old={}
old.update(meta)
json.dump(old,open(p,'w'),indent=1)
PY
