//go:build verif

package dockerlog

import (
	"context"
	"strconv"
	"time"

	"github.com/docker/docker/api/types"
	"go.opentelemetry.io/collector/pdata/pcommon"

	"github.com/tdakkota/docker-logql/internal/logql"
	"github.com/tdakkota/docker-logql/internal/logql/logqlengine"
	"github.com/tdakkota/docker-logql/internal/logstorage"
	"github.com/tdakkota/docker-logql/internal/otelstorage"
)

// C02-O3 / C20-O2: fetchContainers selects exactly the containers whose
// derived label map satisfies the matchers; a Docker label k=v is addressable
// as {KeyToLabel(k)="v"}; the daemon is asked for all containers.
func verifC02Fetch(C int) {
	fc := newFakeClient(C)
	names := make([]string, C)
	dkeys := make([]string, C)
	dvals := make([]string, C)
	for i := 0; i < C; i++ {
		raw := vsymString("name", 2) // may or may not start with '/'
		names[i] = raw
		dkeys[i] = vsymString("dockerKey", 1)
		dvals[i] = vsymString("dockerVal", 1)
		fc.ctrs = append(fc.ctrs, types.Container{
			ID: "id" + strconv.Itoa(i), Names: []string{raw}, Image: "img" + strconv.Itoa(i%2), State: "running",
			Labels: map[string]string{dkeys[i]: dvals[i]},
		})
	}
	// derived label (spec): name without one leading '/'
	derived := func(i int, label string) (string, bool) {
		switch label {
		case "container", "container_name":
			n := names[i]
			if n[0] == '/' {
				n = n[1:]
			}
			return n, true
		case "container_id":
			return "id" + strconv.Itoa(i), true
		case "container_image":
			return "img" + strconv.Itoa(i%2), true
		case "container_state":
			return "running", true
		}
		return "", false
	}
	kind := vsymChoice("matcherOn", 5)
	op := []logql.BinOp{logql.OpEq, logql.OpNotEq}[vsymChoice("op", 2)]
	var m logql.LabelMatcher
	want := make([]bool, C)
	switch kind {
	case 0, 1, 2, 3:
		label := []string{"container", "container_name", "container_id", "container_image"}[kind]
		val := vsymString("mval", 1)
		if kind >= 2 {
			val = []string{"id0", "img1"}[kind-2]
		}
		m = logql.LabelMatcher{Label: logql.Label(label), Op: op, Value: val}
		for i := 0; i < C; i++ {
			cur, _ := derived(i, label)
			want[i] = verifXor(cur == val, op == logql.OpNotEq)
		}
	default:
		// the sanitised Docker label of one of the containers, with its own
		// value (1 byte, so never the empty value of a missing label)
		src := vsymChoice("labelOf", C)
		key := otelstorage.KeyToLabel(dkeys[src])
		if derivedHas(key) {
			// the sanitised key shadows a built-in label: not judged here
			vsymAssume(false)
		}
		m = logql.LabelMatcher{Label: logql.Label(key), Op: op, Value: dvals[src]}
		for i := 0; i < C; i++ {
			// a container carries the label iff its own sanitised key coincides
			eq := vsymAnd(otelstorage.KeyToLabel(dkeys[i]) == key, dvals[i] == dvals[src])
			want[i] = verifXor(eq, op == logql.OpNotEq)
		}
	}
	q := &Querier{client: fc}
	got, err := q.fetchContainers(context.Background(), logqlengine.SelectLogsParams{Labels: []logql.LabelMatcher{m}})
	vsymAssert(err == nil, "listing containers succeeds")
	vsymAssert(len(fc.listOpts) == 1 && fc.listOpts[0].All, "the daemon is asked for all containers, running or not")
	for i := 0; i < C; i++ {
		n := 0
		for _, c := range got {
			if c.ID == "id"+strconv.Itoa(i) {
				n++
			}
		}
		if want[i] {
			vsymAssert(n == 1, "a container whose labels satisfy the selector is read")
			for _, c := range got {
				if c.ID != "id"+strconv.Itoa(i) {
					continue
				}
				// its label map is its own: the built-in labels and its Docker label
				wantLen := 9
				if !derivedHas(otelstorage.KeyToLabel(dkeys[i])) {
					wantLen++
				}
				vsymAssert(len(c.labels.labels) == wantLen, "a selected container carries exactly its own labels")
				v, ok := c.labels.labels[otelstorage.KeyToLabel(dkeys[i])]
				vsymAssert(ok && (v == dvals[i] || derivedHas(otelstorage.KeyToLabel(dkeys[i]))), "a selected container carries its own Docker label")
				v, ok = c.labels.labels["container_id"]
				vsymAssert(ok && (v == c.ID || otelstorage.KeyToLabel(dkeys[i]) == "container_id"), "a selected container carries its own id")
			}
		} else {
			vsymAssert(n == 0, "a container whose labels do not satisfy the selector is not read")
		}
	}
	vsymReach("C02_fetch")
}

func derivedHas(label string) bool {
	switch label {
	case "container", "container_id", "container_name", "container_image", "container_image_id",
		"container_command", "container_created", "container_state", "container_status":
		return true
	}
	return false
}

func verifXor(a, b bool) bool { return a != b }

func VerifHarness_C02_Fetch_1() { verifC02Fetch(1) }
func VerifHarness_C02_Fetch_2() { verifC02Fetch(2) }

// C02-O4: openLog asks the daemon for the query window truncated to whole
// seconds, with stdout, stderr and timestamps on and no tail limit.
func VerifHarness_C02_OpenLog() {
	secs := []int64{1, 1700000000, 4102444799}
	s0 := secs[vsymChoice("startSec", len(secs))]
	s1 := secs[vsymChoice("endSec", len(secs))]
	f0, f1 := vsymInt64("startFrac"), vsymInt64("endFrac")
	vsymAssume(f0 >= 0)
	vsymAssume(f0 < 1000000000)
	vsymAssume(f1 >= 0)
	vsymAssume(f1 < 1000000000)
	start := otelstorage.Timestamp(s0*1000000000 + f0)
	end := otelstorage.Timestamp(s1*1000000000 + f1)
	fc := verifInventory(1)
	q := &Querier{client: fc}
	res := pcommon.NewMap()
	// through the package's entry point (a one-container selection is the
	// openLog path), so that the harness does not depend on a helper's signature
	it, err := q.SelectLogs(context.Background(), start, end, logqlengine.SelectLogsParams{})
	_ = res
	vsymAssert(err == nil, "opening a log succeeds")
	o := fc.logOpts[0]
	vsymAssert(fc.logIDs[0] == "id0", "the log of the selected container is requested")
	vsymAssert(o.ShowStdout && o.ShowStderr && o.Timestamps && !o.Follow, "stdout, stderr and timestamps are requested")
	vsymAssert(o.Tail == "all" || o.Tail == "", "no tail limit")
	vsymAssert(o.Since == strconv.FormatInt(s0, 10), "since = start truncated to whole seconds")
	vsymAssert(o.Until == strconv.FormatInt(s1, 10), "until = end truncated to whole seconds")
	var r logstorage.Record
	vsymAssert(it.Next(&r), "records are decoded from the returned reader")
	idv, ok := r.ResourceAttrs.AsMap().Get("container_id")
	vsymAssert(ok && idv.Str() == "id0", "records carry the container's labels")
	_ = time.Second
	vsymReach("C02_openlog")
}

// C20-O2b / C02-O3b: a Docker label whose sanitised key coincides with a
// built-in label (container, container_name, container_id, ...).  The
// container carrying k=v is selected by {sanitised(k)="v"} all the same: the
// Docker label is the value of that name.
func VerifHarness_C02_FetchShadow() {
	const C = 2
	fc := newFakeClient(C)
	keys := []string{"container", "container.name", "container-id", "container_image", "Container"}
	k0 := keys[vsymChoice("shadowKey", len(keys))]
	v0 := vsymString("dockerVal", 1)
	k1 := vsymString("dockerKey", 1)
	v1 := vsymString("dockerVal", 1)
	dkeys := []string{k0, k1}
	dvals := []string{v0, v1}
	for i := 0; i < C; i++ {
		fc.ctrs = append(fc.ctrs, types.Container{
			ID: "id" + strconv.Itoa(i), Names: []string{"/c" + strconv.Itoa(i)}, Image: "img", State: "running",
			Labels: map[string]string{dkeys[i]: dvals[i]},
		})
	}
	// reference label lookup: the Docker label under its sanitised name, else the built-in label, else nothing
	lookup := func(i int, label string) string {
		if otelstorage.KeyToLabel(dkeys[i]) == label {
			return dvals[i]
		}
		switch label {
		case "container", "container_name":
			return "c" + strconv.Itoa(i)
		case "container_id":
			return "id" + strconv.Itoa(i)
		case "container_image":
			return "img"
		case "container_state":
			return "running"
		case "container_created":
			return "0"
		}
		return ""
	}
	label := otelstorage.KeyToLabel(k0)
	op := []logql.BinOp{logql.OpEq, logql.OpNotEq}[vsymChoice("op", 2)]
	val := []string{v0, "c0", "c1", "id0", "img"}[vsymChoice("value", 5)]
	q := &Querier{client: fc}
	got, err := q.fetchContainers(context.Background(), logqlengine.SelectLogsParams{Labels: []logql.LabelMatcher{{Label: logql.Label(label), Op: op, Value: val}}})
	vsymAssert(err == nil, "listing containers succeeds")
	for i := 0; i < C; i++ {
		n := 0
		for _, c := range got {
			if c.ID == "id"+strconv.Itoa(i) {
				n++
			}
		}
		want := verifXor(lookup(i, label) == val, op == logql.OpNotEq)
		if want {
			vsymAssert(n == 1, "a container carrying Docker label k=v is selected by {sanitised(k)=\"v\"}, also when the name is a built-in one")
		} else {
			vsymAssert(n == 0, "a container whose labels do not satisfy the selector is not read")
		}
	}
	vsymReach("C02_fetch_shadow")
}

// C18-O5: a container whose Docker label keys collide after sanitising
// (a.b and a-b both become a_b).  Which value the name a_b gets is a choice,
// but it must be the same choice every time: the labels of a container, and
// therefore which selectors pick it, do not depend on map iteration order.
func VerifHarness_C18_CollidingDockerLabels_MapOrder() {
	ctr := types.Container{ID: "id0", Names: []string{"/c0"}, Image: "img", State: "running",
		Labels: map[string]string{"a.b": "1", "a-b": "2", "a/b": "3"}}
	vsymMapOrderAll()
	l1 := getLabels(ctr)
	l2 := getLabels(ctr)
	vsymMapOrderDefault()
	v1, ok1 := l1.labels["a_b"]
	v2, ok2 := l2.labels["a_b"]
	vsymAssert(ok1 && ok2, "the sanitised name carries one of the values")
	if v1 != v2 {
		vsymFinding("F23", true, "[maporder] a container whose Docker label keys collide after sanitising (a.b, a-b -> a_b) gets the value of whichever key the map iteration visits last: its labels, and which selectors pick it, change from run to run")
		return
	}
	vsymAssert(v1 == v2, "[maporder] the labels of a container do not depend on map iteration order")
	vsymReach("C18_colliding_labels")
}

// C20-O3: a Docker label whose (already valid) key is a LogQL keyword: the
// container carrying k=v is selected by the selector text {k="v"}, through the
// real parser.
func VerifHarness_C20_KeywordLabel() {
	keys := []string{"on", "json", "by", "keep", "offset", "or", "unwrap", "bool", "sum", "ip", "plain"}
	k := keys[vsymChoice("key", len(keys))]
	fc := newFakeClient(2)
	fc.ctrs = append(fc.ctrs,
		types.Container{ID: "id0", Names: []string{"/c0"}, Image: "img", State: "running", Labels: map[string]string{k: "v"}},
		types.Container{ID: "id1", Names: []string{"/c1"}, Image: "img", State: "running"})
	expr, err := logql.Parse(`{`+k+`="v"}`, logql.ParseOptions{})
	if err != nil {
		vsymFinding("F37", true, "a label whose name is a LogQL keyword (on, json, by, keep, offset, or, unwrap, bool, ...) cannot be written in a selector: {on=\"v\"} is a parse error, so a container carrying the Docker label on=v cannot be selected by it")
		return
	}
	le, ok := expr.(*logql.LogExpr)
	vsymAssert(ok, "a selector parses to a log query")
	q := &Querier{client: fc}
	got, err := q.fetchContainers(context.Background(), logqlengine.SelectLogsParams{Labels: le.Sel.Matchers})
	vsymAssert(err == nil && len(got) == 1 && got[0].ID == "id0", "the container carrying k=v, and only it, is selected by {k=\"v\"}")
	vsymReach("C20_keyword_label")
}
