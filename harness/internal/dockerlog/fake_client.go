//go:build verif

package dockerlog

import (
	"context"
	"errors"
	"io"

	"github.com/docker/docker/api/types"
	apicontainer "github.com/docker/docker/api/types/container"
	"github.com/docker/docker/client"
	"github.com/docker/docker/errdefs"
)

var errVerifDocker = errors.New("verif: injected daemon error")

// fakeClient is a Docker API client serving a fixed inventory (DESIGN G.3).
// Per-container slots keep the concurrent ContainerLogs calls independent.
type fakeClient struct {
	client.APIClient // nil: any other method panics if reached

	ctrs         []types.Container
	streams      [][]byte
	listErr      bool
	failOpen     int // index whose ContainerLogs fails, -1 = none
	failOpenKind int // class of that error: 0 plain, 1 not found, 2 not implemented
	failRead     int // index whose stream reports a read error at its end, -1 = none
	opened       []int
	closed       []int
	listOpts     []apicontainer.ListOptions
	logOpts      []apicontainer.LogsOptions
	logIDs       []string
	noGate       bool // reference runs: no place in the recorded completion order
}

func newFakeClient(n int) *fakeClient {
	return &fakeClient{failOpen: -1, failRead: -1, opened: make([]int, n), closed: make([]int, n),
		logOpts: make([]apicontainer.LogsOptions, n), logIDs: make([]string, n)}
}

func (f *fakeClient) ContainerList(_ context.Context, o apicontainer.ListOptions) ([]types.Container, error) {
	f.listOpts = append(f.listOpts, o)
	if f.listErr {
		return nil, errVerifDocker
	}
	return f.ctrs, nil
}

func (f *fakeClient) ContainerLogs(_ context.Context, id string, o apicontainer.LogsOptions) (io.ReadCloser, error) {
	idx := -1
	for i, c := range f.ctrs {
		if c.ID == id {
			idx = i
		}
	}
	if idx < 0 {
		return nil, errVerifDocker
	}
	if !f.noGate {
		vsymGate(idx)
		defer vsymGateDone(idx)
	}
	f.logOpts[idx] = o
	f.logIDs[idx] = id
	if idx == f.failOpen {
		switch f.failOpenKind {
		case 1:
			return nil, errdefs.NotFound(errVerifDocker) // container removed between listing and opening (404)
		case 2:
			return nil, errdefs.NotImplemented(errVerifDocker) // logging driver cannot be read (501)
		}
		return nil, errVerifDocker
	}
	f.opened[idx]++
	rd := &fragReader{data: f.streams[idx], failAt: -1, closed: &f.closed[idx]}
	if idx == f.failRead {
		rd.failAt = len(f.streams[idx])
	}
	return rd, nil
}

func verifFrame(typ byte, ts, msg string) []byte {
	payload := ts + " " + msg
	n := len(payload)
	b := []byte{typ, 0, 0, 0, byte(n >> 24), byte(n >> 16), byte(n >> 8), byte(n)}
	return append(b, payload...)
}
