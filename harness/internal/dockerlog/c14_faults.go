//go:build verif

package dockerlog

import (
	"context"
	"strconv"
	"time"

	"github.com/docker/docker/api/types"
	"go.opentelemetry.io/otel/trace/noop"

	"github.com/tdakkota/docker-logql/internal/logql"
	"github.com/tdakkota/docker-logql/internal/logql/logqlengine"
	"github.com/tdakkota/docker-logql/internal/logstorage"
	"github.com/tdakkota/docker-logql/internal/otelstorage"
)

func verifInventory(K int) *fakeClient {
	fc := newFakeClient(K)
	for i := 0; i < K; i++ {
		fc.ctrs = append(fc.ctrs, types.Container{ID: "id" + strconv.Itoa(i), Names: []string{"/c" + strconv.Itoa(i)}, Image: "img", State: "running"})
		fc.streams = append(fc.streams, append(
			verifFrame(1, "2024-01-02T03:04:0"+strconv.Itoa(i)+"Z", "a"+strconv.Itoa(i)),
			verifFrame(2, "2024-01-02T03:04:1"+strconv.Itoa(i)+"Z", "b"+strconv.Itoa(i))...))
	}
	return fc
}

// C14-O1: SelectLogs: a failing ContainerList or ContainerLogs (any container,
// any completion order) is an error, and no opened reader stays open.
func verifC14Select(K int) {
	fc := verifInventory(K)
	switch vsymChoice("fault", 3) {
	case 1:
		fc.listErr = true
	case 2:
		fc.failOpen = vsymChoice("failOpen", K)
		fc.failOpenKind = vsymChoice("failOpenKind", 3) // whatever class the daemon's error has, it is an error
	}
	q := &Querier{client: fc}
	vsymSchedAll()
	it, err := q.SelectLogs(context.Background(), 1, 2, logqlengine.SelectLogsParams{
		Labels: []logql.LabelMatcher{{Label: "container_image", Op: logql.OpEq, Value: "img"}},
	})
	// requests that were still in flight when SelectLogs returned finish now
	vsymDrain()
	if fc.listErr || fc.failOpen >= 0 {
		vsymAssert(err != nil, "[sched] a failing daemon request surfaces as an error")
		for i := 0; i < K; i++ {
			vsymAssert(fc.opened[i] == fc.closed[i], "[sched] readers opened before the failure are closed")
		}
	} else {
		vsymAssert(err == nil, "no fault, no error")
		var r logstorage.Record
		n := 0
		for it.Next(&r) {
			n++
		}
		vsymAssert(n == 2*K && it.Err() == nil, "all records are delivered")
		vsymAssert(it.Close() == nil, "close succeeds")
		for i := 0; i < K; i++ {
			vsymAssert(fc.opened[i] == 1 && fc.closed[i] == 1, "[sched] Close on the result closes every reader")
		}
	}
	vsymReach("C14_select")
}

func VerifHarness_C14_Select_2() { verifC14Select(2) }
func VerifHarness_C14_Select_3() { verifC14Select(3) }

// C14-O2: a stream fault in any container while a log or metric query runs
// through the engine is an error (never a shorter result) and every reader
// is closed when Eval returns.
func verifC14Stream(K int) {
	fc := verifInventory(K)
	j := vsymChoice("container", K)
	kind := vsymChoice("streamFault", 4)
	switch kind {
	case 1: // read error after the last frame
		fc.failRead = j
	case 2: // daemon error frame appended
		fc.streams[j] = append(fc.streams[j], verifFrame(3, "2024-01-02T03:04:30Z", "boom")...)
	case 3: // cut inside the last frame's body
		fc.streams[j] = fc.streams[j][:len(fc.streams[j])-3]
	}
	query := []string{`{container_image="img"}`, `{container_image="img"} |= "a"`, `count_over_time({container_image="img"}[1m])`}[vsymChoice("query", 3)]
	q := &Querier{client: fc}
	e := logqlengine.NewEngine(q, logqlengine.Options{TracerProvider: noop.NewTracerProvider()})
	const t0 = int64(1704164640) * 1e9 // 2024-01-02T03:04:00Z
	// the evaluation range covers every record, so the whole stream is read
	_, err := e.Eval(context.Background(), query, logqlengine.EvalParams{Start: otelstorage.Timestamp(t0), End: otelstorage.Timestamp(t0 + 60e9), Step: 30 * time.Second, Limit: -1})
	if kind != 0 {
		vsymAssert(err != nil, "a broken stream makes the query fail instead of returning a truncated result")
	} else {
		vsymAssert(err == nil, "no fault, no error")
	}
	for i := 0; i < K; i++ {
		vsymAssert(fc.opened[i] == fc.closed[i], "every opened log reader is closed when evaluation returns")
	}
	vsymReach("C14_stream")
}

func VerifHarness_C14_Stream_1() { verifC14Stream(1) }
func VerifHarness_C14_Stream_2() { verifC14Stream(2) }
func VerifHarness_C14_Stream_3() { verifC14Stream(3) }


// C14-O2b: every container independently has a healthy, empty or broken
// stream (broken at its first frame or after a good one): the query fails iff
// some stream is broken, whatever the other containers look like, and every
// reader is closed.
func verifC14StreamMix(K int) {
	fc := verifInventory(K)
	anyFault := false
	for j := 0; j < K; j++ {
		good := verifFrame(1, "2024-01-02T03:04:0"+strconv.Itoa(j)+"Z", "a"+strconv.Itoa(j))
		switch vsymChoice("stream", 6) {
		case 0: // healthy (two frames, as built)
		case 1: // empty log
			fc.streams[j] = nil
		case 2: // daemon error frame first
			fc.streams[j] = verifFrame(3, "2024-01-02T03:04:30Z", "boom")
			anyFault = true
		case 3: // first frame cut inside its body
			fc.streams[j] = good[:len(good)-2]
			anyFault = true
		case 4: // read error before the first byte
			fc.streams[j] = nil
			fc.failRead = j
			anyFault = true
		default: // a good frame, then a frame with an unparsable timestamp
			fc.streams[j] = append(good, verifFrame(1, "yesterday", "x")...)
			anyFault = true
		}
	}
	query := []string{`{container_image="img"}`, `count_over_time({container_image="img"}[1m])`}[vsymChoice("query", 2)]
	q := &Querier{client: fc}
	e := logqlengine.NewEngine(q, logqlengine.Options{TracerProvider: noop.NewTracerProvider()})
	const t0 = int64(1704164640) * 1e9
	_, err := e.Eval(context.Background(), query, logqlengine.EvalParams{Start: otelstorage.Timestamp(t0), End: otelstorage.Timestamp(t0 + 60e9), Step: 30 * time.Second, Limit: -1})
	if anyFault {
		vsymAssert(err != nil, "a broken stream in any container makes the query fail, whatever the other containers hold")
	} else {
		vsymAssert(err == nil, "healthy and empty logs evaluate without error")
	}
	for i := 0; i < K; i++ {
		vsymAssert(fc.opened[i] == fc.closed[i], "every opened log reader is closed when evaluation returns")
	}
	vsymReach("C14_stream_mix")
}

func VerifHarness_C14_StreamMix_1() { verifC14StreamMix(1) }
func VerifHarness_C14_StreamMix_2() { verifC14StreamMix(2) }
func VerifHarness_C14_StreamMix_3() { verifC14StreamMix(3) }

// C18-O4: repeating queries on one Querier.  A first selector (symbolic
// container and operator) is evaluated, then a second one on the SAME Querier;
// the second answer must be the one a fresh Querier gives for it: what was
// asked before leaves no trace.
func verifC18Repeat(K int) {
	sel := func(tag string) []logql.LabelMatcher {
		j := vsymChoice(tag+"Container", K+1)
		if j == K {
			return nil // every container
		}
		op := []logql.BinOp{logql.OpEq, logql.OpNotEq}[vsymChoice(tag+"Op", 2)]
		return []logql.LabelMatcher{{Label: "container", Op: op, Value: "c" + strconv.Itoa(j)}}
	}
	read := func(q *Querier, m []logql.LabelMatcher) []string {
		it, err := q.SelectLogs(context.Background(), 1, 2, logqlengine.SelectLogsParams{Labels: m})
		vsymAssert(err == nil, "selection succeeds")
		var out []string
		var r logstorage.Record
		for it.Next(&r) {
			id, _ := r.ResourceAttrs.AsMap().Get("container_id")
			out = append(out, id.Str()+"/"+r.Body)
		}
		vsymAssert(it.Err() == nil && it.Close() == nil, "reading succeeds")
		return out
	}
	first, second := sel("first"), sel("second")
	shared := &Querier{client: verifInventory(K)}
	shared.client.(*fakeClient).noGate = true
	_ = read(shared, first)
	got := read(shared, second)
	fresh := &Querier{client: verifInventory(K)}
	fresh.client.(*fakeClient).noGate = true
	want := read(fresh, second)
	vsymAssert(len(got) == len(want), "a repeated or later query returns as many records as on a fresh querier")
	for i := range want {
		vsymAssert(i < len(got) && got[i] == want[i], "a repeated or later query returns the records a fresh querier returns")
	}
	vsymReach("C18_repeat")
}

func VerifHarness_C18_Repeat_3() { verifC18Repeat(3) }

// C08-O4: through the real Docker querier.  A container's log may hold a later
// line with an earlier timestamp (stdout and stderr are copied independently);
// the entries of a stream are in timestamp order all the same, none lost.
func VerifHarness_C08_DockerOutOfOrder() {
	fc := newFakeClient(1)
	fc.noGate = true
	fc.ctrs = append(fc.ctrs, types.Container{ID: "id0", Names: []string{"/c0"}, Image: "img", State: "running"})
	// three frames; the arrival order is an engine choice over the permutations of the seconds 1, 2, 3
	perms := [][3]int{{1, 2, 3}, {1, 3, 2}, {2, 1, 3}, {2, 3, 1}, {3, 1, 2}, {3, 2, 1}}
	pm := perms[vsymChoice("arrival", len(perms))]
	var data []byte
	for k, sec := range pm {
		data = append(data, verifFrame(byte(1+k%2), "2024-01-02T03:04:0"+strconv.Itoa(sec)+"Z", "m"+strconv.Itoa(sec))...)
	}
	fc.streams = append(fc.streams, data)
	q := &Querier{client: fc}
	e := logqlengine.NewEngine(q, logqlengine.Options{TracerProvider: noop.NewTracerProvider()})
	const t0 = int64(1704164640) * 1e9
	data2, err := e.Eval(context.Background(), `{container="c0"} | keep container`, logqlengine.EvalParams{Start: otelstorage.Timestamp(t0), End: otelstorage.Timestamp(t0 + 60e9), Step: time.Second, Limit: -1})
	vsymAssert(err == nil, "the query evaluates")
	streams, ok := data2.GetStreamsResult()
	vsymAssert(ok && len(streams.Result) == 1, "one stream: every entry carries the labels {container=\"c0\"}")
	vals := streams.Result[0].Values
	vsymAssert(len(vals) == 3, "every record is returned")
	for k := 0; k+1 < len(vals); k++ {
		vsymAssert(vals[k].T <= vals[k+1].T, "entries within a stream are in timestamp order, whatever order the daemon delivered them in")
	}
	for k := range vals {
		vsymAssert(vals[k].V == "m"+strconv.Itoa(k+1), "every entry keeps its line")
	}
	vsymReach("C08_docker_out_of_order")
}
