//go:build verif

package dockerlog

import (
	"errors"
	"io"
	"time"

	"go.opentelemetry.io/collector/pdata/pcommon"

	"github.com/tdakkota/docker-logql/internal/logstorage"
	"github.com/tdakkota/docker-logql/internal/otelstorage"
)

var errVerifRead = errors.New("verif: injected read error")

// fragReader serves a byte slice in engine-chosen fragments (DESIGN G.2).
type fragReader struct {
	data        []byte
	pos         int
	mode        int // 0 whole, 1 byte-wise, 2 one split at `split`
	split       int
	eofWithData bool
	failAt      int // -1: never; otherwise Read fails once pos reaches failAt
	failErr     error // the error of the failing Read (errVerifRead when nil)
	closed      *int
}

func (r *fragReader) Read(p []byte) (int, error) {
	if r.failAt >= 0 && r.pos >= r.failAt {
		if r.failErr != nil {
			return 0, r.failErr
		}
		return 0, errVerifRead
	}
	if r.pos >= len(r.data) {
		return 0, io.EOF
	}
	if len(p) == 0 {
		return 0, nil
	}
	n := len(p)
	if rem := len(r.data) - r.pos; n > rem {
		n = rem
	}
	if r.failAt >= 0 && r.pos+n > r.failAt {
		n = r.failAt - r.pos
	}
	switch r.mode {
	case 1:
		n = 1
	case 2:
		if r.pos < r.split && r.pos+n > r.split {
			n = r.split - r.pos
		}
	}
	copy(p, r.data[r.pos:r.pos+n])
	r.pos += n
	if r.eofWithData && r.pos == len(r.data) && r.failAt < 0 {
		return n, io.EOF
	}
	return n, nil
}

func (r *fragReader) Close() error {
	if r.closed != nil {
		*r.closed++
	}
	return nil
}

type verifFrameSpec struct {
	typ   int    // 1 stdout, 2 stderr, 3 systemerr
	tsIdx int    // index into verifTimestamps
	space bool   // payload has the separating space
	empty bool   // payload of size 0
	msg   string // symbolic bytes
	x     [3]byte
}

var verifTimestamps = []struct {
	text string
	ok   bool
}{
	{"2024-01-02T03:04:05.123456789Z", true},
	{"2024-01-02T03:04:05Z", true},
	{"2024-01-02T03:04:05.000000001+02:00", true},
	{"2024-13-02T03:04:05Z", false},
	// well-formed fields, but no such day in the calendar (the daemon's own fixed-width spelling)
	{"2023-02-29T10:00:00.000000001Z", false},
	{"2024-04-31T10:00:00.000000000Z", false},
}

func verifFrameBytes(f verifFrameSpec) []byte {
	payload := []byte(verifTimestamps[f.tsIdx].text)
	if f.empty {
		payload = nil
	}
	if f.space && !f.empty {
		payload = append(payload, ' ')
		payload = append(payload, f.msg...)
	}
	n := len(payload)
	b := []byte{byte(f.typ), f.x[0], f.x[1], f.x[2], byte(n >> 24), byte(n >> 16), byte(n >> 8), byte(n)}
	return append(b, payload...)
}

func verifWantNs(tsIdx int) int64 {
	t, err := time.Parse(time.RFC3339Nano, verifTimestamps[tsIdx].text)
	if err != nil {
		return -1
	}
	return t.UnixNano()
}

// C03: round trip, truncation, corrupt frames and read errors under
// fragmented reads (A.3).
func verifC03Stream(R, maxMsg int, withSplit bool, faults bool) {
	var frames []verifFrameSpec
	var stream []byte
	var offs []int
	for k := 0; k < R; k++ {
		f := verifFrameSpec{typ: 1 + vsymChoice("type", 2), space: true}
		f.tsIdx = vsymChoice("ts", 3)
		if faults {
			switch vsymChoice("corrupt", 6) {
			case 1:
				f.typ = 3
			case 2:
				f.tsIdx = 3
				if R == 1 {
					f.tsIdx += vsymChoice("badts", 3) // the calendar variants: single-frame bound only
				}
			case 3:
				f.space = false
			case 4:
				f.empty = true // a frame of size 0: no timestamp at all
			case 5:
				f.typ = 3
				f.empty = true // a daemon error frame without text
			}
		}
		f.x = [3]byte{vsymByte("pad"), vsymByte("pad"), vsymByte("pad")}
		f.msg = vsymString("msg", vsymChoice("msglen", maxMsg+1))
		frames = append(frames, f)
		offs = append(offs, len(stream))
		stream = append(stream, verifFrameBytes(f)...)
	}
	total := len(stream)
	offs = append(offs, total)
	cut := total
	failAt := -1
	if faults {
		switch vsymChoice("streamFault", 3) {
		case 1:
			cut = vsymChoice("cut", total+1)
		case 2:
			failAt = vsymChoice("failAt", total+1)
		}
	}
	rd := &fragReader{data: stream[:cut], failAt: failAt}
	// the transport reports a truncated response body as io.ErrUnexpectedEOF
	// (single-frame bound only: the two-frame bound keeps the plain read error)
	transportCut := failAt >= 0 && R == 1 && vsymBool("readErrIsUnexpectedEOF")
	if transportCut {
		rd.failErr = io.ErrUnexpectedEOF
		// inside a frame header this is indistinguishable from a cut stream,
		// which ends cleanly by the statement: judged at frame boundaries and inside bodies only
		for k := 0; k < R; k++ {
			if failAt > offs[k] && failAt < offs[k]+headerLen {
				vsymAssume(false)
			}
		}
	}
	rd.mode = vsymChoice("frag", 2)
	if withSplit {
		rd.mode = 2
		rd.split = vsymChoice("split", cut+1)
	}
	rd.eofWithData = vsymBool("eofWithData")
	closed := 0
	rd.closed = &closed

	// reference decode over the frame specs
	limit := cut
	if failAt >= 0 && failAt < limit {
		limit = failAt
	}
	var want []int
	wantErr := false
	for k := 0; k < R; k++ {
		start, end := offs[k], offs[k+1]
		if end > limit {
			// the frame is not wholly available
			switch {
			case failAt >= 0 && failAt < end && failAt <= cut:
				wantErr = true // the read error surfaces
			case limit < start+headerLen:
				wantErr = false // cut at a frame boundary or inside the header: clean end
			default:
				wantErr = true // cut inside the body
			}
			goto done
		}
		f := frames[k]
		if f.typ == 3 || !f.space || f.empty || !verifTimestamps[f.tsIdx].ok {
			wantErr = true
			goto done
		}
		want = append(want, k)
	}
	if failAt >= 0 && failAt <= cut && failAt >= offs[R] {
		wantErr = true // error instead of EOF at the very end
	}
done:
	res := pcommon.NewMap()
	res.PutStr("container_id", "c1")
	it := ParseLog(rd, otelstorage.Attrs(res))
	got := 0
	var rec logstorage.Record
	var kept []logstorage.Record
	for it.Next(&rec) {
		vsymAssert(got < len(want), "no record beyond the whole, well-formed frames")
		f := frames[want[got]]
		vsymAssert(rec.Body == f.msg, "the message is byte-exact (everything after the first space)")
		vsymAssert(int64(rec.Timestamp) == verifWantNs(f.tsIdx), "the timestamp is nanosecond-exact")
		v, ok := rec.ResourceAttrs.AsMap().Get("container_id")
		vsymAssert(ok && v.Str() == "c1", "the record carries the labels of its container")
		kept = append(kept, rec)
		got++
	}
	vsymAssert(got == len(want), "every whole record before the end/fault is decoded, in order")
	// a record that was handed out stays what it was while the stream is read on
	// (the merge of several containers holds one record per stream while it asks for the next)
	for k, r := range kept {
		f := frames[want[k]]
		vsymAssert(r.Body == f.msg && int64(r.Timestamp) == verifWantNs(f.tsIdx), "a decoded record is not altered by decoding the following ones")
	}
	if wantErr && transportCut && it.Err() == nil {
		vsymFinding("F30", true, "a Read error io.ErrUnexpectedEOF from the log reader (what the HTTP transport returns for a truncated response body) at a frame boundary ends the stream cleanly instead of being reported: the header read treats it like its own short-read result")
		return
	}
	if wantErr {
		vsymAssert(it.Err() != nil, "a cut inside a frame body, a daemon error frame, a bad timestamp or a read error is reported")
	} else {
		vsymAssert(it.Err() == nil, "a stream that ends at a frame boundary or inside a header ends cleanly")
	}
	vsymAssert(it.Close() == nil && closed == 1, "Close closes the underlying reader")
	vsymReach("C03_stream")
}

func VerifHarness_C03_RoundTrip_1()      { verifC03Stream(1, 2, false, false) }
func VerifHarness_C03_RoundTrip_2()      { verifC03Stream(2, 2, false, false) }
func VerifHarness_C03_RoundTrip_2x1()    { verifC03Stream(2, 1, false, false) }
func VerifHarness_C03_RoundTripSplit_1() { verifC03Stream(1, 2, true, false) }
func VerifHarness_C03_RoundTripSplit_2() { verifC03Stream(2, 1, true, false) }
func VerifHarness_C03_Faults_1()         { verifC03Stream(1, 1, false, true) }
func VerifHarness_C03_Faults_2x0()       { verifC03Stream(2, 0, false, true) }
func VerifHarness_C03_FaultsSplit_1()    { verifC03Stream(1, 1, true, true) }
