//go:build verif

package dockerlog

import (
	"context"
	"strconv"

	"github.com/docker/docker/api/types"

	"github.com/tdakkota/docker-logql/internal/iterators"
	"github.com/tdakkota/docker-logql/internal/logql"
	"github.com/tdakkota/docker-logql/internal/logql/logqlengine"
	"github.com/tdakkota/docker-logql/internal/logstorage"
	"github.com/tdakkota/docker-logql/internal/otelstorage"
)

// C04-O1: the merge of K time-ordered sources is a permutation of all
// records, non-decreasing in time, preserving each source's own order.
func verifC04Merge(K, maxPer int) {
	var iters []logiter
	type rec struct {
		src, idx int
		ts       uint64
	}
	var all []rec
	for s := 0; s < K; s++ {
		n := vsymChoice("len", maxPer+1)
		var recs []logstorage.Record
		prev := uint64(0)
		for j := 0; j < n; j++ {
			ts := vsymUint64("ts")
			vsymAssume(prev <= ts) // each container's own log is time-ordered
			prev = ts
			recs = append(recs, logstorage.Record{Timestamp: otelstorage.Timestamp(ts), Body: strconv.Itoa(s) + ":" + strconv.Itoa(j)})
			all = append(all, rec{s, j, ts})
		}
		iters = append(iters, iterators.Slice(recs))
	}
	m := newMergeIter(iters)
	seen := map[string]bool{}
	nextIdx := make([]int, K)
	var r logstorage.Record
	count := 0
	var prevTs uint64
	for m.Next(&r) {
		vsymAssert(!seen[r.Body], "no record is delivered twice")
		seen[r.Body] = true
		// identify
		found := false
		for _, a := range all {
			if strconv.Itoa(a.src)+":"+strconv.Itoa(a.idx) == r.Body {
				found = true
				vsymAssert(uint64(r.Timestamp) == a.ts, "a record keeps its timestamp")
				vsymAssert(a.idx == nextIdx[a.src], "each container's own order is preserved")
				nextIdx[a.src]++
			}
		}
		vsymAssert(found, "only input records are delivered")
		if count > 0 {
			vsymAssert(prevTs <= uint64(r.Timestamp), "the merged stream is in non-decreasing timestamp order")
		}
		prevTs = uint64(r.Timestamp)
		count++
		vsymAssert(count <= len(all), "no more records than were put in")
	}
	vsymAssert(count == len(all), "every record of every container is delivered exactly once")
	vsymAssert(m.Err() == nil, "no error without faults")
	vsymReach("C04_merge")
}

func VerifHarness_C04_Merge_2x2() { verifC04Merge(2, 2) }
func VerifHarness_C04_Merge_3x2() { verifC04Merge(3, 2) }

// C04-O2 / C18-O3 / C02-O5: SelectLogs over K containers under every
// completion order of the concurrent opens: the merged sequence is the same,
// every record carries the labels of its container, the goroutine bodies
// touch disjoint memory.
func verifC04Schedules(K int) {
	fc := newFakeClient(K)
	for i := 0; i < K; i++ {
		id := "id" + strconv.Itoa(i)
		fc.ctrs = append(fc.ctrs, types.Container{ID: id, Names: []string{"/c" + strconv.Itoa(i)}, Image: "img", State: "running"})
		// container i logs at seconds 5-i and 10+i: interleaved across containers
		fc.streams = append(fc.streams, append(
			verifFrame(1, "2024-01-02T03:04:0"+strconv.Itoa(5-i)+"Z", "first"+strconv.Itoa(i)),
			verifFrame(2, "2024-01-02T03:04:1"+strconv.Itoa(i)+"Z", "second"+strconv.Itoa(i))...))
	}
	q := &Querier{client: fc}
	vsymSchedAll()
	it, err := q.SelectLogs(context.Background(), 1, 2, logqlengine.SelectLogsParams{
		Labels: []logql.LabelMatcher{{Label: "container_image", Op: logql.OpEq, Value: "img"}},
	})
	vsymAssert(err == nil, "opening the logs of all selected containers succeeds")
	var want []string
	for i := K - 1; i >= 0; i-- {
		want = append(want, "first"+strconv.Itoa(i))
	}
	for i := 0; i < K; i++ {
		want = append(want, "second"+strconv.Itoa(i))
	}
	n := 0
	var r logstorage.Record
	for it.Next(&r) {
		vsymAssert(n < len(want) && r.Body == want[n], "[sched] the merged result does not depend on the completion order of the opens")
		idv, ok := r.ResourceAttrs.AsMap().Get("container_id")
		vsymAssert(ok && idv.Str() == "id"+r.Body[len(r.Body)-1:], "[sched] every line carries the labels of the container that produced it")
		n++
	}
	vsymAssert(n == len(want) && it.Err() == nil, "[sched] every record of every container is delivered")
	vsymAssert(it.Close() == nil, "close succeeds")
	for i := 0; i < K; i++ {
		vsymAssert(fc.opened[i] == 1 && fc.closed[i] == 1, "[sched] every opened reader is closed exactly once")
	}
	vsymReach("C04_schedules")
}

func VerifHarness_C04_Schedules_3() { verifC04Schedules(3) }
func VerifHarness_C04_Schedules_5() { verifC04Schedules(5) }

// C04-O2b: the same with equal timestamps across containers (a symbolic
// choice of which frames tie).  The reference is the real merge over readers
// opened one after another in inventory order; the concurrent path must
// deliver the same sequence under every completion order.
func verifC04ScheduleTies(K int) {
	build := func() *fakeClient {
		fc := newFakeClient(K)
		return fc
	}
	fc, ref := build(), build()
	ref.noGate = true
	for i := 0; i < K; i++ {
		id := "id" + strconv.Itoa(i)
		ctr := types.Container{ID: id, Names: []string{"/c" + strconv.Itoa(i)}, Image: "img", State: "running"}
		// every container logs twice; first frames tie across containers when
		// tie1, second frames when tie2
		s1, s2 := strconv.Itoa(i), strconv.Itoa(i)
		if vsymBool("tie_first") {
			s1 = "0"
		}
		if vsymBool("tie_second") {
			s2 = "0"
		}
		data := append(
			verifFrame(1, "2024-01-02T03:04:0"+s1+"Z", "first"+strconv.Itoa(i)),
			verifFrame(2, "2024-01-02T03:04:1"+s2+"Z", "second"+strconv.Itoa(i))...)
		for _, f := range []*fakeClient{fc, ref} {
			f.ctrs = append(f.ctrs, ctr)
			f.streams = append(f.streams, data)
		}
	}
	// reference: sequential opens in inventory order through the real openLog and merge
	rq := &Querier{client: ref}
	params := logqlengine.SelectLogsParams{
		Labels: []logql.LabelMatcher{{Label: "container_image", Op: logql.OpEq, Value: "img"}},
	}
	ctrs, err := rq.fetchContainers(context.Background(), params)
	vsymAssert(err == nil && len(ctrs) == K, "reference inventory")
	var iters []logiter
	for i := 0; i < K; i++ {
		// one-container selection = the sequential open of that container
		it, err := rq.SelectLogs(context.Background(), 1, 2, logqlengine.SelectLogsParams{
			Labels: []logql.LabelMatcher{{Label: "container_id", Op: logql.OpEq, Value: ctrs[i].ID}},
		})
		vsymAssert(err == nil, "reference open succeeds")
		iters = append(iters, it)
	}
	var want []string
	var r logstorage.Record
	rit := newMergeIter(iters)
	for rit.Next(&r) {
		want = append(want, r.Body)
	}
	vsymAssert(len(want) == 2*K && rit.Err() == nil, "reference merge delivers every record")
	_ = rit.Close()

	q := &Querier{client: fc}
	vsymSchedAll()
	it, err := q.SelectLogs(context.Background(), 1, 2, params)
	vsymAssert(err == nil, "opening the logs of all selected containers succeeds")
	n := 0
	for it.Next(&r) {
		vsymAssert(n < len(want) && r.Body == want[n], "[sched] with equal timestamps across containers the merged result does not depend on the completion order of the opens")
		n++
	}
	vsymAssert(n == len(want) && it.Err() == nil, "[sched] every record of every container is delivered")
	vsymAssert(it.Close() == nil, "close succeeds")
	vsymReach("C04_schedule_ties")
}

func VerifHarness_C04_ScheduleTies_3() { verifC04ScheduleTies(3) }
func VerifHarness_C04_ScheduleTies_4() { verifC04ScheduleTies(4) }

// C04-O1c: many sources.  K sources with exactly one record each (source 0
// with 1+extra), all timestamps symbolic: every relative order of the first
// records, hence every shape the merge heap can take for K entries.
func verifC04MergeWide(K, extra int) { verifC04MergeWideTs(K, extra, 255) }

// maxTs bounds the symbolic timestamps: with few distinct values (many ties)
// the number of distinguishable orders stays small, so many more sources fit.
func verifC04MergeWideTs(K, extra int, maxTs byte) {
	var iters []logiter
	type rec struct {
		src, idx int
		ts       uint64
	}
	var all []rec
	for s := 0; s < K; s++ {
		n := 1
		if s == 0 {
			n += extra
		}
		var recs []logstorage.Record
		prev := uint64(0)
		for j := 0; j < n; j++ {
			// only the relative order of timestamps matters to a merge: 8-bit
			// symbolic values realise every order (ties included) of up to 256 records
			tb := vsymByte("ts")
			vsymAssume(tb <= maxTs)
			ts := uint64(tb)
			vsymAssume(prev <= ts)
			prev = ts
			recs = append(recs, logstorage.Record{Timestamp: otelstorage.Timestamp(ts), Body: strconv.Itoa(s) + ":" + strconv.Itoa(j)})
			all = append(all, rec{s, j, ts})
		}
		iters = append(iters, iterators.Slice(recs))
	}
	m := newMergeIter(iters)
	var r logstorage.Record
	count := 0
	var prevTs uint64
	seen := map[string]bool{}
	next0 := 0
	for m.Next(&r) {
		vsymAssert(!seen[r.Body], "no record is delivered twice")
		seen[r.Body] = true
		if len(r.Body) > 2 && r.Body[:2] == "0:" {
			vsymAssert(r.Body == "0:"+strconv.Itoa(next0), "each container's own order is preserved")
			next0++
		}
		if count > 0 {
			vsymAssert(prevTs <= uint64(r.Timestamp), "the merged stream is in non-decreasing timestamp order")
		}
		prevTs = uint64(r.Timestamp)
		count++
		vsymAssert(count <= len(all), "no more records than were put in")
	}
	vsymAssert(count == len(all), "every record of every container is delivered exactly once")
	vsymReach("C04_merge_wide")
}

func VerifHarness_C04_MergeWide_6x1() { verifC04MergeWide(6, 1) }
func VerifHarness_C04_MergeWideTies_10() { verifC04MergeWideTs(10, 1, 1) }
func VerifHarness_C04_MergeWideTies_16() { verifC04MergeWideTs(16, 1, 1) }
func VerifHarness_C04_MergeWideTies3_10() { verifC04MergeWideTs(10, 1, 2) }
func VerifHarness_C04_MergeWide_8()   { verifC04MergeWide(8, 0) }
func VerifHarness_C04_MergeWide_9()   { verifC04MergeWide(9, 0) }
