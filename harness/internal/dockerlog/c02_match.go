//go:build verif

package dockerlog

import (
	"regexp"

	"github.com/tdakkota/docker-logql/internal/logql"
)

// Table regexes (DESIGN A.1), compiled the way label matchers are: ^(?:re)$.
var verifTableRe = []string{"a.*", ".*b", "a|b"}

// refFullMatch is the byte-level meaning of the anchored table regexes.
func refFullMatch(re int, s string) bool {
	n := len(s)
	switch re {
	case 0: // a.*
		if n == 0 {
			return false
		}
		ok := s[0] == 'a'
		for i := 1; i < n; i++ {
			ok = vsymAnd(ok, s[i] != '\n')
		}
		return ok
	case 1: // .*b
		if n == 0 {
			return false
		}
		ok := s[n-1] == 'b'
		for i := 0; i < n-1; i++ {
			ok = vsymAnd(ok, s[i] != '\n')
		}
		return ok
	default: // a|b
		if n != 1 {
			return false
		}
		return vsymOr(s[0] == 'a', s[0] == 'b')
	}
}

// refMatch: LogQL selector matcher semantics.
func refMatch(op logql.BinOp, s, v string, re int) bool {
	switch op {
	case logql.OpEq:
		return s == v
	case logql.OpNotEq:
		return s != v
	case logql.OpRe:
		return refFullMatch(re, s)
	case logql.OpNotRe:
		return vsymNot(refFullMatch(re, s))
	}
	return false
}

// C02-O1: match(m, s) for every operator value, subject and matcher value.
func verifC02Match(maxLen int) {
	op := logql.BinOp(vsymInt("op"))
	vsymAssume(op >= 0)
	vsymAssume(op < 24)
	s := vsymString("s", vsymChoice("slen", maxLen+1))
	v := vsymString("v", vsymChoice("vlen", maxLen+1))
	ri := vsymChoice("re", len(verifTableRe))
	m := logql.LabelMatcher{Label: "x", Op: op, Value: v, Re: regexp.MustCompile("^(?:" + verifTableRe[ri] + ")$")}
	got := match(m, s)
	want := refMatch(op, s, v, ri)
	vsymAssert(got == want, "match(m, s) follows the selector operator semantics")
	vsymReach("C02_match")
}

func VerifHarness_C02_Match_2() { verifC02Match(2) }
func VerifHarness_C02_Match_3() { verifC02Match(3) }

// C02-O2: containerLabels.Match; a label the container does not have
// behaves as the empty string.
func verifC02LabelsMatch(maxLen int) {
	has := vsymBool("has")
	val := vsymString("val", vsymChoice("vallen", maxLen+1))
	labels := map[string]string{"other": "o"}
	cur := ""
	if has {
		labels["x"] = val
		cur = val
	}
	c := containerLabels{labels: labels}
	nm := vsymChoice("matchers", 3)
	want := true
	var ms []logql.LabelMatcher
	for i := 0; i < nm; i++ {
		op := logql.BinOp(vsymInt("op"))
		vsymAssume(vsymOr(vsymOr(op == logql.OpEq, op == logql.OpNotEq), vsymOr(op == logql.OpRe, op == logql.OpNotRe)))
		v := vsymString("v", vsymChoice("vlen", maxLen+1))
		ri := vsymChoice("re", len(verifTableRe))
		ms = append(ms, logql.LabelMatcher{Label: "x", Op: op, Value: v, Re: regexp.MustCompile("^(?:" + verifTableRe[ri] + ")$")})
		want = vsymAnd(want, refMatch(op, cur, v, ri))
	}
	got := c.Match(ms)
	vsymAssert(got == want, "containerLabels.Match: all matchers hold, missing label = empty string")
	vsymReach("C02_labels_match")
}

func VerifHarness_C02_LabelsMatch_1() { verifC02LabelsMatch(1) }
func VerifHarness_C02_LabelsMatch_2() { verifC02LabelsMatch(2) }
