//go:build verif

package logql

import (
	"sort"
	"strconv"
	"time"

	"github.com/tdakkota/docker-logql/internal/logql/lexer"
)

// C05: print/parse round trip over token sequences.  A generator (the
// reference printer) turns engine-chosen AST shapes into tokens and into a
// canonical rendering; the real parser parses the tokens; its AST, rendered
// by verifShow, must equal the expected rendering, and the static rules must
// be enforced (error iff the shape is invalid).

// ---- canonical rendering of the parser's AST ----

func vOp(op BinOp) string { return "[" + strconv.Itoa(int(op)) + "]" }

func vQ(s string) string { return strconv.Quote(s) }

func vLabels(ls []Label) string {
	s := "("
	for i, l := range ls {
		if i > 0 {
			s += ","
		}
		s += string(l)
	}
	return s + ")"
}

func vMatcher(m LabelMatcher) string {
	s := string(m.Label) + vOp(m.Op) + vQ(m.Value)
	if m.Re != nil {
		s += "~" + m.Re.String()
	}
	return s
}

func vMatchers(ms []LabelMatcher) string {
	s := "{"
	for i, m := range ms {
		if i > 0 {
			s += ","
		}
		s += vMatcher(m)
	}
	return s + "}"
}

func vPred(p LabelPredicate) string {
	switch p := p.(type) {
	case *LabelPredicateBinOp:
		return "(" + vPred(p.Left) + vOp(p.Op) + vPred(p.Right) + ")"
	case *LabelPredicateParen:
		return "P" + vPred(p.X)
	case *LabelMatcher:
		return "str:" + vMatcher(*p)
	case *NumberFilter:
		return "num:" + string(p.Label) + vOp(p.Op) + strconv.FormatFloat(p.Value, 'g', -1, 64)
	case *DurationFilter:
		return "dur:" + string(p.Label) + vOp(p.Op) + strconv.FormatInt(int64(p.Value), 10)
	case *BytesFilter:
		return "bytes:" + string(p.Label) + vOp(p.Op) + strconv.FormatUint(p.Value, 10)
	case *IPFilter:
		return "ip:" + string(p.Label) + vOp(p.Op) + vQ(p.Value)
	}
	return "<pred?>"
}

func vExtraction(labels []Label, exprs []LabelExtractionExpr) string {
	s := vLabels(labels) + "<"
	for i, e := range exprs {
		if i > 0 {
			s += ","
		}
		s += string(e.Label) + "=" + vQ(e.Expr)
	}
	return s + ">"
}

func vStage(st PipelineStage) string {
	switch st := st.(type) {
	case *LineFilter:
		s := "line" + vOp(st.Op) + vQ(st.Value)
		if st.IP {
			s += "#ip"
		}
		if st.Re != nil {
			s += "~" + st.Re.String()
		}
		return s
	case *JSONExpressionParser:
		return "json" + vExtraction(st.Labels, st.Exprs)
	case *LogfmtExpressionParser:
		return "logfmt" + vExtraction(st.Labels, st.Exprs)
	case *RegexpLabelParser:
		keys := make([]int, 0, len(st.Mapping))
		for k := range st.Mapping {
			keys = append(keys, k)
		}
		sort.Ints(keys)
		s := "regexp" + vQ(st.Regexp.String())
		for _, k := range keys {
			s += "," + strconv.Itoa(k) + "=" + string(st.Mapping[k])
		}
		return s
	case *PatternLabelParser:
		return "pattern" + vQ(st.Pattern)
	case *UnpackLabelParser:
		return "unpack"
	case *LineFormat:
		return "line_format" + vQ(st.Template)
	case *DecolorizeExpr:
		return "decolorize"
	case *LabelFilter:
		return "filter:" + vPred(st.Pred)
	case *LabelFormatExpr:
		s := "label_format"
		for _, r := range st.Labels {
			s += " " + string(r.To) + "<-" + string(r.Label)
		}
		for _, t := range st.Values {
			s += " " + string(t.Label) + "=" + vQ(t.Template)
		}
		return s
	case *DropLabelsExpr:
		return "drop" + vLabels(st.Labels) + vMatchers(st.Matchers)
	case *KeepLabelsExpr:
		return "keep" + vLabels(st.Labels) + vMatchers(st.Matchers)
	case *DistinctFilter:
		return "distinct" + vLabels(st.Labels)
	}
	return "<stage?>"
}

func vPipeline(ps []PipelineStage) string {
	s := ""
	for _, st := range ps {
		s += "|" + vStage(st)
	}
	return s
}

func vGrouping(g *Grouping) string {
	if g == nil {
		return ""
	}
	if g.Without {
		return " without" + vLabels(g.Labels)
	}
	return " by" + vLabels(g.Labels)
}

func vShow(e Expr) string {
	switch e := e.(type) {
	case *LogExpr:
		return "log" + vMatchers(e.Sel.Matchers) + vPipeline(e.Pipeline)
	case *RangeAggregationExpr:
		s := "range#" + strconv.Itoa(int(e.Op))
		if e.Parameter != nil {
			s += "(" + strconv.FormatFloat(*e.Parameter, 'g', -1, 64) + ")"
		}
		r := e.Range
		s += vMatchers(r.Sel.Matchers) + vPipeline(r.Pipeline) + "[" + strconv.FormatInt(int64(r.Range), 10) + "]"
		if r.Offset != nil {
			s += " offset " + strconv.FormatInt(int64(r.Offset.Duration), 10)
		}
		if r.Unwrap != nil {
			s += " unwrap " + r.Unwrap.Op + ":" + string(r.Unwrap.Label) + vMatchers(r.Unwrap.Filters)
		}
		return s + vGrouping(e.Grouping)
	case *VectorAggregationExpr:
		s := "vec#" + strconv.Itoa(int(e.Op))
		if e.Parameter != nil {
			s += "(" + strconv.Itoa(*e.Parameter) + ")"
		}
		return s + "<" + vShow(e.Expr) + ">" + vGrouping(e.Grouping)
	case *LiteralExpr:
		return "lit:" + strconv.FormatFloat(e.Value, 'g', -1, 64)
	case *VectorExpr:
		return "vector:" + strconv.FormatFloat(e.Value, 'g', -1, 64)
	case *LabelReplaceExpr:
		re := ""
		if e.Re != nil {
			re = e.Re.String()
		}
		return "label_replace<" + vShow(e.Expr) + ">" + vQ(e.DstLabel) + vQ(e.Replacement) + vQ(e.SrcLabel) + vQ(e.Regex) + "~" + re
	case *BinOpExpr:
		return "(" + vShow(e.Left) + vOp(e.Op) + vShow(e.Right) + ")"
	case *ParenExpr:
		return vShow(e.X) // redundant parentheses do not change what the text denotes
	}
	return "<expr?>"
}

// ---- generator: tokens + expected rendering ----

type vGen struct {
	toks []lexer.Token
}

func (g *vGen) t(tt lexer.TokenType, text string) {
	g.toks = append(g.toks, lexer.Token{Type: tt, Text: text})
}
func (g *vGen) ident(s string) { g.t(lexer.Ident, s) }
func (g *vGen) str(s string)   { g.t(lexer.String, s) }

type vOpTok struct {
	tt   lexer.TokenType
	text string
	op   BinOp
}

var vMatchOps = []vOpTok{{lexer.Eq, "=", OpEq}, {lexer.NotEq, "!=", OpNotEq}, {lexer.Re, "=~", OpRe}, {lexer.NotRe, "!~", OpNotRe}}

// genMatcher emits `label op "value"` and returns its rendering.
func (g *vGen) genMatcher(tag string, label string) string {
	o := vMatchOps[vsymChoice(tag+"op", 4)]
	val := []string{"x", "y.*"}[vsymChoice(tag+"val", 2)]
	g.ident(label)
	g.t(o.tt, o.text)
	g.str(val)
	s := label + vOp(o.op) + vQ(val)
	if o.op == OpRe || o.op == OpNotRe {
		s += "~^(?:" + val + ")$"
	}
	return s
}

func (g *vGen) genSelector(tag string, n int) string {
	g.t(lexer.OpenBrace, "{")
	s := "{"
	for i := 0; i < n; i++ {
		if i > 0 {
			g.t(lexer.Comma, ",")
			s += ","
		}
		s += g.genMatcher(tag, []string{"a", "b"}[i])
	}
	g.t(lexer.CloseBrace, "}")
	return s + "}"
}

func vParse(toks []lexer.Token) (Expr, error) {
	p := parser{tokens: toks}
	e, err := p.parseExpr()
	if err != nil {
		return nil, err
	}
	if t := p.next(); t.Type != lexer.EOF {
		return nil, p.unexpectedToken(t)
	}
	return e, nil
}

func vExpect(toks []lexer.Token, want string, valid bool, what string) {
	e, err := vParse(toks)
	if !valid {
		vsymAssert(err != nil, what+": text that violates a static rule is rejected")
		return
	}
	vsymAssert(err == nil, what+": a valid query is accepted")
	vsymAssert(vShow(e) == want, what+": the parsed structure is the one the text denotes")
}

// F1 selectors
func VerifHarness_C05_Selector() {
	g := &vGen{}
	n := vsymChoice("matchers", 3)
	parens := vsymChoice("parens", 2)
	if parens == 1 {
		g.t(lexer.OpenParen, "(")
	}
	sel := g.genSelector("m", n)
	if parens == 1 {
		g.t(lexer.CloseParen, ")")
	}
	vExpect(g.toks, "log"+sel, true, "selector")
	vsymReach("C05_selector")
}

// genLabelList emits a comma separated identifier list.
func (g *vGen) genIdents(names []string) string {
	for i, n := range names {
		if i > 0 {
			g.t(lexer.Comma, ",")
		}
		g.ident(n)
	}
	s := "("
	for i, n := range names {
		if i > 0 {
			s += ","
		}
		s += n
	}
	return s + ")"
}

// genStage emits one pipeline stage of the chosen kind; returns rendering and validity.
func (g *vGen) genStage(tag string, inMetric bool) (string, bool) {
	kind := vsymChoice(tag+"kind", 13)
	switch kind {
	case 0: // line filter
		ops := []vOpTok{{lexer.PipeExact, "|=", OpEq}, {lexer.NotEq, "!=", OpNotEq}, {lexer.PipeMatch, "|~", OpRe}, {lexer.NotRe, "!~", OpNotRe}}
		o := ops[vsymChoice(tag+"lineop", 4)]
		g.t(o.tt, o.text)
		if vsymChoice(tag+"ip", 2) == 1 {
			g.t(lexer.IP, "ip")
			g.t(lexer.OpenParen, "(")
			g.str("10.0.0.0/8")
			g.t(lexer.CloseParen, ")")
			return "|line" + vOp(o.op) + vQ("10.0.0.0/8") + "#ip", o.op == OpEq || o.op == OpNotEq
		}
		g.str("y.*")
		s := "|line" + vOp(o.op) + vQ("y.*")
		if o.op == OpRe || o.op == OpNotRe {
			s += "~y.*"
		}
		return s, true
	case 1, 2: // json / logfmt
		g.t(lexer.Pipe, "|")
		name := "json"
		if kind == 1 {
			g.t(lexer.JSON, "json")
		} else {
			g.t(lexer.Logfmt, "logfmt")
			name = "logfmt"
		}
		switch vsymChoice(tag+"extract", 6) {
		case 0:
			return "|" + name + "()<>", true
		case 1:
			g.ident("a")
			return "|" + name + "(a)<>", true
		case 2:
			g.ident("a")
			g.t(lexer.Comma, ",")
			g.ident("b")
			return "|" + name + "(a,b)<>", true
		case 3:
			g.ident("a")
			g.t(lexer.Eq, "=")
			g.str("x.y")
			return "|" + name + "()<a=" + vQ("x.y") + ">", true
		case 4:
			g.ident("a")
			g.t(lexer.Comma, ",")
			g.ident("b")
			g.t(lexer.Eq, "=")
			g.str("x.y")
			return "|" + name + "(a)<b=" + vQ("x.y") + ">", true
		default:
			g.ident("a")
			g.t(lexer.Eq, "=")
			g.str("x.y")
			g.t(lexer.Comma, ",")
			g.ident("b")
			return "|" + name + "(b)<a=" + vQ("x.y") + ">", true
		}
	case 3: // regexp
		g.t(lexer.Pipe, "|")
		g.t(lexer.Regexp, "regexp")
		if vsymChoice(tag+"badre", 2) == 1 {
			g.str("(")
			return "", false
		}
		g.str("(?P<m>a+)(b)(?P<n>c)")
		return "|regexp" + vQ("(?P<m>a+)(b)(?P<n>c)") + ",1=m,3=n", true
	case 4:
		g.t(lexer.Pipe, "|")
		g.t(lexer.Pattern, "pattern")
		g.str("<a> b")
		return "|pattern" + vQ("<a> b"), true
	case 5:
		g.t(lexer.Pipe, "|")
		g.t(lexer.Unpack, "unpack")
		return "|unpack", true
	case 6:
		g.t(lexer.Pipe, "|")
		g.t(lexer.LineFormat, "line_format")
		g.str("{{.a}}")
		return "|line_format" + vQ("{{.a}}"), true
	case 7:
		g.t(lexer.Pipe, "|")
		g.t(lexer.Decolorize, "decolorize")
		return "|decolorize", true
	case 8: // label filter (single string leaf; predicates have their own family)
		g.t(lexer.Pipe, "|")
		m := g.genMatcher(tag+"f", "a")
		return "|filter:str:" + m, true
	case 9: // label_format
		g.t(lexer.Pipe, "|")
		g.t(lexer.LabelFormat, "label_format")
		switch vsymChoice(tag+"lf", 4) {
		case 0:
			g.ident("d")
			g.t(lexer.Eq, "=")
			g.ident("s")
			return "|label_format d<-s", true
		case 1:
			g.ident("d")
			g.t(lexer.Eq, "=")
			g.str("{{.s}}")
			return "|label_format d=" + vQ("{{.s}}"), true
		case 2:
			g.ident("d")
			g.t(lexer.Eq, "=")
			g.ident("s")
			g.t(lexer.Comma, ",")
			g.ident("e")
			g.t(lexer.Eq, "=")
			g.str("t")
			return "|label_format d<-s e=" + vQ("t"), true
		default: // duplicate target
			g.ident("d")
			g.t(lexer.Eq, "=")
			g.ident("s")
			g.t(lexer.Comma, ",")
			g.ident("d")
			g.t(lexer.Eq, "=")
			g.str("t")
			return "", false
		}
	case 10, 11: // keep / drop
		g.t(lexer.Pipe, "|")
		name := "keep"
		if kind == 10 {
			g.t(lexer.Keep, "keep")
		} else {
			g.t(lexer.Drop, "drop")
			name = "drop"
		}
		switch vsymChoice(tag+"kd", 4) {
		case 0:
			g.ident("a")
			return "|" + name + "(a){}", true
		case 1:
			g.ident("a")
			g.t(lexer.Comma, ",")
			g.ident("b")
			return "|" + name + "(a,b){}", true
		case 2:
			m := g.genMatcher(tag+"kdm", "a")
			return "|" + name + "(){" + m + "}", true
		default:
			g.ident("b")
			g.t(lexer.Comma, ",")
			m := g.genMatcher(tag+"kdm", "a")
			return "|" + name + "(b){" + m + "}", true
		}
	default: // distinct, or unwrap inside a log query (invalid)
		g.t(lexer.Pipe, "|")
		if !inMetric && vsymChoice(tag+"unwrap", 2) == 1 {
			g.t(lexer.Unwrap, "unwrap")
			g.ident("a")
			return "", false
		}
		g.t(lexer.Distinct, "distinct")
		if vsymChoice(tag+"dn", 2) == 1 {
			g.ident("a")
			g.t(lexer.Comma, ",")
			g.ident("b")
			return "|distinct(a,b)", true
		}
		g.ident("a")
		return "|distinct(a)", true
	}
}

// F2 pipelines of 1..n stages, order preserved.
func verifC05Pipeline(n int) {
	g := &vGen{}
	sel := g.genSelector("m", 1)
	want := "log" + sel
	valid := true
	for i := 0; i < n; i++ {
		before := len(g.toks)
		s, ok := g.genStage("s"+strconv.Itoa(i), false)
		if i > 0 && before >= 1 && g.toks[before-1].Type == lexer.Ident {
			// `| keep a != "x"`: after a bare label a following `!=`/`!~` line
			// filter is read as a matcher on that label: LogQL's grammar is
			// ambiguous here and this reading is as good as the other
			if t := g.toks[before].Type; t == lexer.NotEq || t == lexer.NotRe {
				vsymAssume(false)
			}
		}
		want += s
		if !ok {
			valid = false
			break // nothing follows the offending stage
		}
	}
	vExpect(g.toks, want, valid, "pipeline")
	vsymReach("C05_pipeline")
}

func VerifHarness_C05_Pipeline_1() { verifC05Pipeline(1) }
func VerifHarness_C05_Pipeline_2() { verifC05Pipeline(2) }

// F3 label predicates
type vLeaf struct {
	show   string
	valid  bool
	f16    bool // `label = ip(...)`: valid LogQL, rejected by this parser (finding F16)
	signed bool // a number literal with a sign
}

var vCmpOps = []vOpTok{
	{lexer.Eq, "=", OpEq}, {lexer.CmpEq, "==", OpEq}, {lexer.NotEq, "!=", OpNotEq}, {lexer.Re, "=~", OpRe}, {lexer.NotRe, "!~", OpNotRe},
	{lexer.Gt, ">", OpGt}, {lexer.Gte, ">=", OpGte}, {lexer.Lt, "<", OpLt}, {lexer.Lte, "<=", OpLte},
}

func (g *vGen) genLeaf(tag, label string) vLeaf {
	o := vCmpOps[vsymChoice(tag+"op", len(vCmpOps))]
	isOrder := o.tt == lexer.Gt || o.tt == lexer.Gte || o.tt == lexer.Lt || o.tt == lexer.Lte
	numOK := isOrder || o.tt == lexer.CmpEq || o.tt == lexer.NotEq
	g.ident(label)
	g.t(o.tt, o.text)
	switch vsymChoice(tag+"lit", 7) {
	case 5: // a signed number: `| a > -2.5`
		g.t(lexer.Sub, "-")
		g.t(lexer.Number, "2.5")
		return vLeaf{show: "num:" + label + vOp(o.op) + "-2.5", valid: numOK, signed: true}
	case 6:
		g.t(lexer.Add, "+")
		g.t(lexer.Number, "2.5")
		return vLeaf{show: "num:" + label + vOp(o.op) + "2.5", valid: numOK, signed: true}
	case 0:
		g.str("y.*")
		s := "str:" + label + vOp(o.op) + vQ("y.*")
		if o.op == OpRe || o.op == OpNotRe {
			s += "~^(?:y.*)$"
		}
		return vLeaf{show: s, valid: o.tt == lexer.Eq || o.tt == lexer.NotEq || o.tt == lexer.Re || o.tt == lexer.NotRe}
	case 1:
		g.t(lexer.Number, "2.5")
		return vLeaf{show: "num:" + label + vOp(o.op) + "2.5", valid: numOK}
	case 2:
		g.t(lexer.Duration, "90s")
		return vLeaf{show: "dur:" + label + vOp(o.op) + strconv.FormatInt(int64(90*time.Second), 10), valid: numOK}
	case 3:
		g.t(lexer.Bytes, "2KiB")
		return vLeaf{show: "bytes:" + label + vOp(o.op) + "2048", valid: numOK}
	default:
		g.t(lexer.IP, "ip")
		g.t(lexer.OpenParen, "(")
		g.str("10.0.0.1")
		g.t(lexer.CloseParen, ")")
		// LogQL writes IP label filters with `=` and `!=`
		return vLeaf{show: "ip:" + label + vOp(o.op) + vQ("10.0.0.1"), valid: o.tt == lexer.Eq || o.tt == lexer.NotEq || o.tt == lexer.CmpEq, f16: o.tt == lexer.Eq}
	}
}

func VerifHarness_C05_PredicateLeaf() {
	g := &vGen{}
	sel := g.genSelector("m", 0)
	g.t(lexer.Pipe, "|")
	leaf := g.genLeaf("l", "a")
	if leaf.f16 {
		_, err := vParse(g.toks)
		vsymFinding("F16", err != nil, "`label = ip(\"...\")`, the documented LogQL spelling of an IP label filter, is rejected (only `==` and `!=` are accepted)")
		vsymReach("C05_predicate_leaf")
		return
	}
	if leaf.signed && leaf.valid {
		if _, err := vParse(g.toks); err != nil {
			vsymFinding("F41", true, "a signed number in a label filter (`| lat > -5`, `| x == +1`) is rejected with `unexpected token \"Sub\"`: only a bare number is accepted after the comparison operator")
			vsymReach("C05_predicate_leaf")
			return
		}
	}
	vExpect(g.toks, "log"+sel+"|filter:"+leaf.show, leaf.valid, "label filter")
	vsymReach("C05_predicate_leaf")
}

// boolean reading of a rendered predicate tree over atoms a,b,c
type vTree struct {
	atom        int // >= 0: leaf
	and         bool
	left, right *vTree
}

func (t *vTree) eval(as [3]bool) bool {
	if t.atom >= 0 {
		return as[t.atom]
	}
	if t.and {
		return t.left.eval(as) && t.right.eval(as)
	}
	return t.left.eval(as) || t.right.eval(as)
}

func vTreeOf(p LabelPredicate) *vTree {
	switch p := p.(type) {
	case *LabelPredicateBinOp:
		return &vTree{atom: -1, and: p.Op == OpAnd, left: vTreeOf(p.Left), right: vTreeOf(p.Right)}
	case *LabelPredicateParen:
		return vTreeOf(p.X)
	case *LabelMatcher:
		return &vTree{atom: int(p.Label[0] - 'a')}
	}
	return &vTree{atom: 0}
}

// F3b: chains `a L1 b L2 c` with links from {and, or, ",", juxtaposition} and
// optional parentheses: the predicate must read as LogQL does (and binds
// tighter than or; parentheses override).
func VerifHarness_C05_PredicateChain() {
	g := &vGen{}
	g.genSelector("m", 0)
	g.t(lexer.Pipe, "|")
	links := make([]int, 2)         // 0 and, 1 or, 2 comma, 3 juxtaposition
	paren := vsymChoice("paren", 3) // 0 none, 1 (a L b) L c, 2 a L (b L c)
	atom := func(i int) {
		g.ident([]string{"a", "b", "c"}[i])
		g.t(lexer.Eq, "=")
		g.str("x")
	}
	link := func(k int) {
		links[k] = vsymChoice("link", 4)
		switch links[k] {
		case 0:
			g.t(lexer.And, "and")
		case 1:
			g.t(lexer.Or, "or")
		case 2:
			g.t(lexer.Comma, ",")
		}
	}
	if paren == 1 {
		g.t(lexer.OpenParen, "(")
	}
	atom(0)
	link(0)
	if paren == 2 {
		g.t(lexer.OpenParen, "(")
	}
	atom(1)
	if paren == 1 {
		g.t(lexer.CloseParen, ")")
	}
	link(1)
	atom(2)
	if paren == 2 {
		g.t(lexer.CloseParen, ")")
	}
	e, err := vParse(g.toks)
	vsymAssert(err == nil, "a chain of label filters is accepted")
	le, ok := e.(*LogExpr)
	vsymAssert(ok && len(le.Pipeline) == 1, "one label filter stage")
	lf, ok := le.Pipeline[0].(*LabelFilter)
	vsymAssert(ok, "the stage is a label filter")
	got := vTreeOf(lf.Pred)
	isAnd := func(k int) bool { return links[k] != 1 }
	leaf := func(i int) *vTree { return &vTree{atom: i} }
	node := func(and bool, l, r *vTree) *vTree { return &vTree{atom: -1, and: and, left: l, right: r} }
	var conv, right *vTree
	right = node(isAnd(0), leaf(0), node(isAnd(1), leaf(1), leaf(2)))
	switch {
	case paren == 1:
		conv = node(isAnd(1), node(isAnd(0), leaf(0), leaf(1)), leaf(2))
		right = conv
	case paren == 2:
		conv = node(isAnd(0), leaf(0), node(isAnd(1), leaf(1), leaf(2)))
		right = conv
	case isAnd(0) && !isAnd(1):
		conv = node(false, node(true, leaf(0), leaf(1)), leaf(2)) // (a and b) or c
	case !isAnd(0) && isAnd(1):
		conv = node(false, leaf(0), node(true, leaf(1), leaf(2))) // a or (b and c)
	default:
		conv = node(isAnd(0), node(isAnd(0), leaf(0), leaf(1)), leaf(2))
	}
	sameConv, sameRight := true, true
	for m := 0; m < 8; m++ {
		as := [3]bool{m&1 != 0, m&2 != 0, m&4 != 0}
		if got.eval(as) != conv.eval(as) {
			sameConv = false
		}
		if got.eval(as) != right.eval(as) {
			sameRight = false
		}
	}
	vsymFinding("F10", !sameConv && sameRight, "`a and b or c` in a label filter reads as a and (b or c): the predicate parser nests to the right and ignores that `and` binds tighter than `or`")
	vsymAssert(sameConv || sameRight, "a label filter chain reads as LogQL does (and binds tighter than or, parentheses override)")
	vsymReach("C05_predicate_chain")
}

// F4 range aggregations
type vRangeOp struct {
	tt     lexer.TokenType
	text   string
	op     RangeOp
	group  bool // grouping allowed
	unwrap int  // 0 forbidden, 1 required, 2 either
}

var vRangeOps = []vRangeOp{
	{lexer.CountOverTime, "count_over_time", RangeOpCount, false, 0},
	{lexer.Rate, "rate", RangeOpRate, false, 2},
	{lexer.RateCounter, "rate_counter", RangeOpRateCounter, false, 1},
	{lexer.BytesOverTime, "bytes_over_time", RangeOpBytes, false, 0},
	{lexer.BytesRate, "bytes_rate", RangeOpBytesRate, false, 0},
	{lexer.AvgOverTime, "avg_over_time", RangeOpAvg, true, 1},
	{lexer.SumOverTime, "sum_over_time", RangeOpSum, false, 1},
	{lexer.MinOverTime, "min_over_time", RangeOpMin, true, 1},
	{lexer.MaxOverTime, "max_over_time", RangeOpMax, true, 1},
	{lexer.StdvarOverTime, "stdvar_over_time", RangeOpStdvar, true, 1},
	{lexer.StddevOverTime, "stddev_over_time", RangeOpStddev, true, 1},
	{lexer.QuantileOverTime, "quantile_over_time", RangeOpQuantile, true, 1},
	{lexer.FirstOverTime, "first_over_time", RangeOpFirst, true, 1},
	{lexer.LastOverTime, "last_over_time", RangeOpLast, true, 1},
	{lexer.AbsentOverTime, "absent_over_time", RangeOpAbsent, false, 2},
}

func (g *vGen) genRange(tag string) (string, bool) {
	ro := vRangeOps[vsymChoice(tag+"rop", len(vRangeOps))]
	g.t(ro.tt, ro.text)
	g.t(lexer.OpenParen, "(")
	s := "range#" + strconv.Itoa(int(ro.op))
	valid := true
	hasParam := vsymChoice(tag+"param", 2) == 1
	if hasParam {
		g.t(lexer.Number, "0.9")
		g.t(lexer.Comma, ",")
		s += "(0.9)"
	}
	if hasParam != (ro.op == RangeOpQuantile) {
		valid = false
	}
	sel := g.genSelector(tag+"m", 1)
	rangeFirst := vsymChoice(tag+"rangeFirst", 2) == 1
	hasOffset := vsymChoice(tag+"offset", 2) == 1
	emitRange := func() {
		g.t(lexer.OpenBracket, "[")
		g.t(lexer.Duration, "5m")
		g.t(lexer.CloseBracket, "]")
		if hasOffset {
			g.t(lexer.Offset, "offset")
			g.t(lexer.Duration, "30s")
		}
	}
	pipe := ""
	unwrapShow := ""
	emitPipeline := func() {
		if vsymChoice(tag+"stage", 2) == 1 {
			g.t(lexer.PipeExact, "|=")
			g.str("e")
			pipe = "|line" + vOp(OpEq) + vQ("e")
		}
		switch vsymChoice(tag+"unwrap", 4) {
		case 1:
			g.t(lexer.Pipe, "|")
			g.t(lexer.Unwrap, "unwrap")
			g.ident("v")
			unwrapShow = " unwrap :v{}"
		case 2:
			g.t(lexer.Pipe, "|")
			g.t(lexer.Unwrap, "unwrap")
			g.t(lexer.BytesConv, "bytes")
			g.t(lexer.OpenParen, "(")
			g.ident("v")
			g.t(lexer.CloseParen, ")")
			unwrapShow = " unwrap bytes:v{}"
		case 3:
			g.t(lexer.Pipe, "|")
			g.t(lexer.Unwrap, "unwrap")
			g.t(lexer.DurationConv, "duration")
			g.t(lexer.OpenParen, "(")
			g.ident("v")
			g.t(lexer.CloseParen, ")")
			g.t(lexer.Pipe, "|")
			m := g.genMatcher(tag+"uf", "b")
			unwrapShow = " unwrap duration:v{" + m + "}"
		}
	}
	if rangeFirst {
		emitRange()
		emitPipeline()
	} else {
		emitPipeline()
		if pipe == "" && unwrapShow == "" {
			// `selector pipeline RANGE` needs a pipeline; without one this is the range-first form
			rangeFirst = true
		}
		emitRange()
	}
	g.t(lexer.CloseParen, ")")
	s += sel + pipe + "[" + strconv.FormatInt(int64(5*time.Minute), 10) + "]"
	if hasOffset {
		s += " offset " + strconv.FormatInt(int64(30*time.Second), 10)
	}
	s += unwrapShow
	switch {
	case unwrapShow != "" && ro.unwrap == 0:
		valid = false
	case unwrapShow == "" && ro.unwrap == 1:
		valid = false
	}
	switch vsymChoice(tag+"grouping", 4) {
	case 1:
		g.t(lexer.By, "by")
		g.t(lexer.OpenParen, "(")
		g.ident("a")
		g.t(lexer.CloseParen, ")")
		s += " by(a)"
		valid = valid && ro.group
	case 2:
		g.t(lexer.Without, "without")
		g.t(lexer.OpenParen, "(")
		g.ident("a")
		g.t(lexer.Comma, ",")
		g.ident("b")
		g.t(lexer.CloseParen, ")")
		s += " without(a,b)"
		valid = valid && ro.group
	case 3:
		g.t(lexer.By, "by")
		g.t(lexer.OpenParen, "(")
		g.t(lexer.CloseParen, ")")
		s += " by()"
		valid = valid && ro.group
	}
	return s, valid
}

func VerifHarness_C05_RangeAggregation() {
	g := &vGen{}
	s, valid := g.genRange("r")
	vExpect(g.toks, s, valid, "range aggregation")
	vsymReach("C05_range")
}

// F5 vector aggregations
type vVecOp struct {
	tt   lexer.TokenType
	text string
	op   VectorOp
}

var vVecOps = []vVecOp{
	{lexer.Sum, "sum", VectorOpSum}, {lexer.Avg, "avg", VectorOpAvg}, {lexer.Count, "count", VectorOpCount},
	{lexer.Max, "max", VectorOpMax}, {lexer.Min, "min", VectorOpMin}, {lexer.Stddev, "stddev", VectorOpStddev},
	{lexer.Stdvar, "stdvar", VectorOpStdvar}, {lexer.Bottomk, "bottomk", VectorOpBottomk}, {lexer.Topk, "topk", VectorOpTopk},
	{lexer.Sort, "sort", VectorOpSort}, {lexer.SortDesc, "sort_desc", VectorOpSortDesc},
}

func VerifHarness_C05_VectorAggregation() {
	g := &vGen{}
	vo := vVecOps[vsymChoice("vop", len(vVecOps))]
	g.t(vo.tt, vo.text)
	grouping := vsymChoice("grouping", 3) // 0 none, 1 before, 2 after
	without := vsymChoice("without", 2) == 1
	groupShow := ""
	emitGrouping := func() {
		if without {
			g.t(lexer.Without, "without")
			groupShow = " without(a)"
		} else {
			g.t(lexer.By, "by")
			groupShow = " by(a)"
		}
		g.t(lexer.OpenParen, "(")
		g.ident("a")
		g.t(lexer.CloseParen, ")")
	}
	if grouping == 1 {
		emitGrouping()
	}
	g.t(lexer.OpenParen, "(")
	param := vsymChoice("param", 4) // none, 2, 0, no parameter but an operand that starts with a number: `2 * ...`
	s := "vec#" + strconv.Itoa(int(vo.op))
	switch param {
	case 1:
		g.t(lexer.Number, "2")
		g.t(lexer.Comma, ",")
		s += "(2)"
	case 2:
		g.t(lexer.Number, "0")
		g.t(lexer.Comma, ",")
		s += "(0)"
	case 3:
		g.t(lexer.Number, "2")
		g.t(lexer.Mul, "*")
	}
	g.t(lexer.CountOverTime, "count_over_time")
	g.t(lexer.OpenParen, "(")
	sel := g.genSelector("m", 1)
	g.t(lexer.OpenBracket, "[")
	g.t(lexer.Duration, "1m")
	g.t(lexer.CloseBracket, "]")
	g.t(lexer.CloseParen, ")")
	g.t(lexer.CloseParen, ")")
	if grouping == 2 {
		emitGrouping()
	}
	inner := "range#" + strconv.Itoa(int(RangeOpCount)) + sel + "[" + strconv.FormatInt(int64(time.Minute), 10) + "]"
	if param == 3 {
		inner = "(lit:2" + vOp(OpMul) + inner + ")"
	}
	s += "<" + inner + ">" + groupShow
	isK := vo.op == VectorOpTopk || vo.op == VectorOpBottomk
	valid := true
	if isK {
		valid = param == 1
	} else {
		valid = param == 0 || param == 3
	}
	if (vo.op == VectorOpSort || vo.op == VectorOpSortDesc) && grouping != 0 {
		valid = false
	}
	if param == 3 && valid {
		if _, err := vParse(g.toks); err != nil {
			vsymFinding("F22", true, "an aggregation over an expression that starts with a number, e.g. sum(2 * rate({job=\"a\"}[1m])), is rejected: a leading number is always taken for the aggregation parameter and a comma demanded after it")
			return
		}
	}
	vExpect(g.toks, s, valid, "vector aggregation")
	vsymReach("C05_vector")
}

// F6 literals, vector(), label_replace, redundant parentheses
func VerifHarness_C05_Atoms() {
	g := &vGen{}
	depth := vsymChoice("parens", 3)
	for i := 0; i < depth; i++ {
		g.t(lexer.OpenParen, "(")
	}
	s := ""
	valid := true
	switch vsymChoice("atom", 4) {
	case 0:
		switch vsymChoice("sign", 3) {
		case 0:
			g.t(lexer.Number, "1.5")
			s = "lit:1.5"
		case 1:
			g.t(lexer.Add, "+")
			g.t(lexer.Number, "1.5")
			s = "lit:1.5"
		default:
			g.t(lexer.Sub, "-")
			g.t(lexer.Number, "1.5")
			s = "lit:-1.5"
		}
	case 1:
		g.t(lexer.Vector, "vector")
		g.t(lexer.OpenParen, "(")
		g.t(lexer.Number, "2")
		g.t(lexer.CloseParen, ")")
		s = "vector:2"
	case 2:
		g.t(lexer.LabelReplace, "label_replace")
		g.t(lexer.OpenParen, "(")
		g.t(lexer.Vector, "vector")
		g.t(lexer.OpenParen, "(")
		g.t(lexer.Number, "2")
		g.t(lexer.CloseParen, ")")
		re := "(.*)"
		if vsymChoice("badre", 2) == 1 {
			re = "("
			valid = false
		}
		for _, p := range []string{"dst", "$1", "src", re} {
			g.t(lexer.Comma, ",")
			g.str(p)
		}
		g.t(lexer.CloseParen, ")")
		s = "label_replace<vector:2>" + vQ("dst") + vQ("$1") + vQ("src") + vQ(re) + "~^(?:" + re + ")$"
	default:
		s, valid = g.genRange("r")
	}
	for i := 0; i < depth; i++ {
		g.t(lexer.CloseParen, ")")
	}
	vExpect(g.toks, s, valid, "atom")
	vsymReach("C05_atoms")
}

// F7 queries with several label lists (groupings before/after, nested
// groupings, on/ignoring and group_left/group_right lists): every list of the
// parsed structure holds the labels its own text denotes.
var vLabelLists = [][]string{{"a"}, {"b", "c"}, {"c"}, {"a", "b"}}

func (g *vGen) genList(tag string) string {
	return g.genIdents(vLabelLists[vsymChoice(tag, len(vLabelLists))])
}

// genGroupedAgg emits `sum by (L) (avg_over_time(sel | unwrap v [1m]) without (L'))` with the
// outer grouping before or after; returns its rendering.
func (g *vGen) genGroupedAgg(tag string, after bool) string {
	g.t(lexer.Sum, "sum")
	outer := ""
	if !after {
		g.t(lexer.By, "by")
		g.t(lexer.OpenParen, "(")
		outer = g.genList(tag + "_outer")
		g.t(lexer.CloseParen, ")")
	}
	g.t(lexer.OpenParen, "(")
	g.t(lexer.AvgOverTime, "avg_over_time")
	g.t(lexer.OpenParen, "(")
	g.t(lexer.OpenBrace, "{")
	g.ident("j")
	g.t(lexer.Eq, "=")
	g.str(tag)
	g.t(lexer.CloseBrace, "}")
	g.t(lexer.Pipe, "|")
	g.t(lexer.Unwrap, "unwrap")
	g.ident("v")
	g.t(lexer.OpenBracket, "[")
	g.t(lexer.Duration, "1m")
	g.t(lexer.CloseBracket, "]")
	g.t(lexer.CloseParen, ")")
	g.t(lexer.Without, "without")
	g.t(lexer.OpenParen, "(")
	inner := g.genList(tag + "_inner")
	g.t(lexer.CloseParen, ")")
	g.t(lexer.CloseParen, ")")
	if after {
		g.t(lexer.By, "by")
		g.t(lexer.OpenParen, "(")
		outer = g.genList(tag + "_outer")
		g.t(lexer.CloseParen, ")")
	}
	return "vec#" + strconv.Itoa(int(VectorOpSum)) + "<range#" + strconv.Itoa(int(RangeOpAvg)) + "{j" + vOp(OpEq) + vQ(tag) + "}" +
		"[" + strconv.FormatInt(int64(time.Minute), 10) + "] unwrap :v{} without" + inner + "> by" + outer
}

func VerifHarness_C05_LabelLists() {
	g := &vGen{}
	after := vsymBool("grouping_after")
	left := g.genGroupedAgg("l", after)
	g.t(lexer.Div, "/")
	mod := ""
	switch vsymChoice("modifier", 4) {
	case 1:
		g.t(lexer.On, "on")
		g.t(lexer.OpenParen, "(")
		mod = "on" + g.genList("on")
		g.t(lexer.CloseParen, ")")
	case 2:
		g.t(lexer.Ignoring, "ignoring")
		g.t(lexer.OpenParen, "(")
		mod = "ignoring" + g.genList("on")
		g.t(lexer.CloseParen, ")")
		g.t(lexer.GroupLeft, "group_left")
		g.t(lexer.OpenParen, "(")
		mod += " left" + g.genList("include")
		g.t(lexer.CloseParen, ")")
	case 3:
		g.t(lexer.On, "on")
		g.t(lexer.OpenParen, "(")
		mod = "on" + g.genList("on")
		g.t(lexer.CloseParen, ")")
		g.t(lexer.GroupRight, "group_right")
		mod += " right()"
	}
	right := g.genGroupedAgg("r", false)
	e, err := vParse(g.toks)
	vsymAssert(err == nil, "label lists: a valid query is accepted")
	b, ok := e.(*BinOpExpr)
	vsymAssert(ok && b.Op == OpDiv, "label lists: the query is a division")
	vsymAssert(vShow(b.Left) == left, "label lists: left operand's groupings are the ones its text denotes")
	vsymAssert(vShow(b.Right) == right, "label lists: right operand's groupings are the ones its text denotes")
	got := ""
	if b.Modifier.Op != "" {
		got = b.Modifier.Op + vLabels(b.Modifier.OpLabels)
		if b.Modifier.Group != "" {
			got += " " + b.Modifier.Group + vLabels(b.Modifier.Include)
		}
	}
	vsymAssert(got == mod, "label lists: the matching modifier's lists are the ones its text denotes")
	vsymReach("C05_label_lists")
}

// F8 numeric literals through the real lexer and parser: durations (range,
// offset, label filter), byte sizes and numbers (label filters) are accepted
// in every documented spelling and denote the value the text says.
var vDurations = []struct {
	text string
	d    time.Duration
}{
	{"5m", 5 * time.Minute}, {"1h30m", 90 * time.Minute}, {"90s", 90 * time.Second}, {"500ms", 500 * time.Millisecond},
	{"1d", 24 * time.Hour}, {"2w", 14 * 24 * time.Hour}, {"1.5h", 90 * time.Minute}, {"1m30s500ms", 90*time.Second + 500*time.Millisecond},
	{"10us", 10 * time.Microsecond}, {"1µs", time.Microsecond}, {"5ns", 5}, {"1d12h", 36 * time.Hour}, {"1w2d", 9 * 24 * time.Hour},
	{"00005m", 5 * time.Minute}, {"1y", 365 * 24 * time.Hour}, {"1y2w", (365 + 14) * 24 * time.Hour},
}

var vByteSizes = []struct {
	text string
	n    uint64
}{
	{"5B", 5}, {"5b", 5}, {"10KiB", 10 << 10}, {"3kb", 3000}, {"1MB", 1e6}, {"1.5MiB", 3 << 19}, {"1.5GB", 15e8}, {"1Gi", 1 << 30},
	{"2Ki", 2 << 10}, {"7k", 7000}, {"1g", 1e9}, {"1TB", 1e12}, {"1TiB", 1 << 40},
	{"1PB", 1e15}, {"1PiB", 1 << 50}, {"2EB", 2e18}, {"1EiB", 1 << 60},
}

func VerifHarness_C05_NumericLiterals() {
	switch vsymChoice("kind", 3) {
	case 0:
		d := vDurations[vsymChoice("duration", len(vDurations))]
		year := d.text[0] == '1' && len(d.text) > 1 && d.text[1] == 'y'
		var q string
		ctx := vsymChoice("context", 3)
		switch ctx {
		case 0:
			q = `count_over_time({a="b"}[` + d.text + `])`
		case 1:
			q = `count_over_time({a="b"}[1m] offset ` + d.text + `)`
		default:
			q = `{a="b"} | x > ` + d.text
		}
		e, err := Parse(q, ParseOptions{})
		if year && err != nil {
			vsymFinding("F19", true, "a duration with the unit `y` (years, e.g. [1y]) is rejected by the lexer: `y` is scanned as part of a duration but missing from the unit table")
			return
		}
		vsymAssert(err == nil, "numeric literals: a duration in a documented spelling is accepted")
		switch ctx {
		case 0:
			r, ok := e.(*RangeAggregationExpr)
			vsymAssert(ok && r.Range.Range == d.d, "numeric literals: the range is the duration the text denotes")
		case 1:
			r, ok := e.(*RangeAggregationExpr)
			vsymAssert(ok && r.Range.Offset != nil && r.Range.Offset.Duration == d.d, "numeric literals: the offset is the duration the text denotes")
		default:
			l, ok := e.(*LogExpr)
			vsymAssert(ok && len(l.Pipeline) == 1, "numeric literals: one label filter")
			lf, ok := l.Pipeline[0].(*LabelFilter)
			vsymAssert(ok, "numeric literals: a label filter stage")
			df, ok := lf.Pred.(*DurationFilter)
			vsymAssert(ok && df.Label == "x" && df.Op == OpGt && df.Value == d.d, "numeric literals: a duration comparison with the value the text denotes")
		}
	case 1:
		b := vByteSizes[vsymChoice("bytes", len(vByteSizes))]
		e, err := Parse(`{a="b"} | x > `+b.text, ParseOptions{})
		big := b.n >= 1e15 // peta and exa
		if big && err != nil {
			vsymFinding("F20", true, "byte sizes in peta and exa units with an integer mantissa (1PB, 1PiB, 2EB, 1EiB) are rejected: text/scanner reads the P or E as the start of an exponent")
			return
		}
		vsymAssert(err == nil, "numeric literals: a byte size in a documented spelling is accepted")
		l, ok := e.(*LogExpr)
		vsymAssert(ok && len(l.Pipeline) == 1, "numeric literals: one label filter")
		lf, ok := l.Pipeline[0].(*LabelFilter)
		vsymAssert(ok, "numeric literals: a label filter stage")
		bf, ok := lf.Pred.(*BytesFilter)
		vsymAssert(ok && bf.Label == "x" && bf.Op == OpGt && bf.Value == b.n, "numeric literals: a size comparison with the value the text denotes")
	default:
		nums := []struct {
			text string
			f    float64
		}{{"5", 5}, {"1e3", 1000}, {"1.5", 1.5}, {"0.25", 0.25}, {"100", 100}, {"0", 0}, {"1E2", 100}, {"2.5e-1", 0.25}}
		n := nums[vsymChoice("number", len(nums))]
		e, err := Parse(`{a="b"} | x >= `+n.text, ParseOptions{})
		vsymAssert(err == nil, "numeric literals: a number is accepted")
		l, ok := e.(*LogExpr)
		vsymAssert(ok && len(l.Pipeline) == 1, "numeric literals: one label filter")
		lf, ok := l.Pipeline[0].(*LabelFilter)
		vsymAssert(ok, "numeric literals: a label filter stage")
		nf, ok := lf.Pred.(*NumberFilter)
		vsymAssert(ok && nf.Label == "x" && nf.Op == OpGte && nf.Value == n.f, "numeric literals: a number comparison with the value the text denotes")
	}
	vsymReach("C05_numeric_literals")
}
