//go:build verif

package logqlengine

import (
	"time"
	"regexp"

	"go.opentelemetry.io/collector/pdata/pcommon"

	"github.com/tdakkota/docker-logql/internal/logql"
)

// an arbitrary regex outside the precise table: matching is an uninterpreted
// predicate, so the laws below are shown for every regex behaviour
var verifAnyRe = regexp.MustCompile(`x+y?[0-9]`)

func verifLineFilter(op logql.BinOp, needle string) Processor {
	// through the pipeline constructor, as queries are built
	p, err := BuildPipeline(&logql.LineFilter{Op: op, Value: needle, Re: verifAnyRe})
	vsymAssert(err == nil, "line filter builds")
	return p
}

func verifLabelFilter(name string, op logql.BinOp, value string) Processor {
	p, err := buildLabelMatcher(logql.LabelMatcher{Label: logql.Label(name), Op: op, Value: value, Re: verifAnyRe})
	vsymAssert(err == nil, "label matcher builds")
	return p
}

func verifSetAB(tag string, maxLen int) LabelSet {
	set := newLabelSet()
	for _, n := range []string{"a", "b"} {
		if vsymBool(tag + "has") {
			set.Set(logql.Label(n), pcommon.NewValueStr(vsymString(tag+"val", vsymChoice(tag+"len", maxLen+1))))
		}
	}
	return set
}

// C19-O1: a filter and its negation split any record set into two disjoint
// parts; the line is never changed; `|= ""` keeps everything.
func verifC19Complement(lineLen, needleLen int) {
	line := vsymString("line", vsymChoice("linelen", lineLen+1))
	needle := vsymString("needle", vsymChoice("needlelen", needleLen+1))
	set := verifSetAB("", 1)
	pairs := [][2]Processor{
		{verifLineFilter(logql.OpEq, needle), verifLineFilter(logql.OpNotEq, needle)},
		{verifLineFilter(logql.OpRe, "x"), verifLineFilter(logql.OpNotRe, "x")},
		{verifLabelFilter("a", logql.OpEq, needle), verifLabelFilter("a", logql.OpNotEq, needle)},
		{verifLabelFilter("a", logql.OpRe, "x"), verifLabelFilter("a", logql.OpNotRe, "x")},
	}
	for _, pr := range pairs {
		l1, k1 := pr[0].Process(1, line, set)
		l2, k2 := pr[1].Process(1, line, set)
		vsymAssert(k1 != k2, "exactly one of a filter and its negation keeps a record")
		vsymAssert(l1 == line && l2 == line, "filters never change the line")
	}
	_, k := verifLineFilter(logql.OpEq, "").Process(1, line, set)
	vsymAssert(k, `|= "" keeps every line`)
	vsymReach("C19_complement")
}

func VerifHarness_C19_Complement_2() { verifC19Complement(2, 1) }
func VerifHarness_C19_Complement_3() { verifC19Complement(3, 2) }

// C19-O2/O3: and = intersection, or = union; stateless filters commute and
// are idempotent in a pipeline.
func verifC19Algebra(maxLen int) {
	line := vsymString("line", vsymChoice("linelen", maxLen+1))
	set := verifSetAB("", maxLen)
	ops := []logql.BinOp{logql.OpEq, logql.OpNotEq, logql.OpRe, logql.OpNotRe}
	mk := func(tag string) (Processor, logql.LabelPredicate) {
		kind := vsymChoice(tag+"kind", 2)
		op := ops[vsymChoice(tag+"op", 4)]
		v := vsymString(tag+"v", vsymChoice(tag+"vlen", maxLen+1))
		if kind == 0 {
			name := []string{"a", "b"}[vsymChoice(tag+"label", 2)]
			m := &logql.LabelMatcher{Label: logql.Label(name), Op: op, Value: v, Re: verifAnyRe}
			return verifLabelFilter(name, op, v), m
		}
		return verifLineFilter(op, v), nil
	}
	f, fp := mk("f")
	g, gp := mk("g")
	_, kf := f.Process(1, line, set)
	_, kg := g.Process(1, line, set)
	if fp != nil && gp != nil {
		and, err := buildLabelPredicate(&logql.LabelPredicateBinOp{Left: fp, Op: logql.OpAnd, Right: gp})
		vsymAssert(err == nil, "and builds")
		or, err := buildLabelPredicate(&logql.LabelPredicateBinOp{Left: fp, Op: logql.OpOr, Right: &logql.LabelPredicateParen{X: gp}})
		vsymAssert(err == nil, "or builds")
		l, k := and.Process(1, line, set)
		vsymAssert(k == vsymAnd(kf, kg) && (!k || l == line), "`a and b` selects the intersection")
		l, k = or.Process(1, line, set)
		vsymAssert(k == vsymOr(kf, kg) && (!k || l == line), "`a or b` selects the union")
	}
	fg := &Pipeline{Stages: []Processor{f, g}}
	gf := &Pipeline{Stages: []Processor{g, f}}
	ff := &Pipeline{Stages: []Processor{f, f}}
	l1, k1 := fg.Process(1, line, set)
	l2, k2 := gf.Process(1, line, set)
	l3, k3 := ff.Process(1, line, set)
	vsymAssert(k1 == k2 && k1 == vsymAnd(kf, kg), "stateless filters commute")
	vsymAssert(k3 == kf, "a stateless filter is idempotent")
	vsymAssert((!k1 || l1 == line) && (!k2 || l2 == line) && (!k3 || l3 == line), "q | f is a sub-multiset of q: kept lines are unchanged")
	vsymReach("C19_algebra")
}

// C19-O2b: nested predicates: the verdict of a tree of three label matchers is
// the Boolean combination of the leaves' own verdicts, whatever the nesting
// (an `and` inside an `or`, an `or` inside an `and`, with and without
// parentheses nodes); leaves may test the same label.
func verifC19Nested(maxLen int) {
	line := vsymString("line", 1)
	set := verifSetAB("", maxLen)
	ops := []logql.BinOp{logql.OpEq, logql.OpNotEq, logql.OpRe, logql.OpNotRe}
	mk := func(tag string) (bool, logql.LabelPredicate) {
		op := ops[vsymChoice(tag+"op", 2)]
		v := vsymString(tag+"v", maxLen)
		name := []string{"a", "b"}[vsymChoice(tag+"label", 2)]
		m := &logql.LabelMatcher{Label: logql.Label(name), Op: op, Value: v, Re: verifAnyRe}
		_, k := verifLabelFilter(name, op, v).Process(1, line, set)
		return k, m
	}
	kf, fp := mk("f")
	kg, gp := mk("g")
	kh, hp := mk("h")
	paren := vsymBool("paren")
	wrap := func(p logql.LabelPredicate) logql.LabelPredicate {
		if paren {
			return &logql.LabelPredicateParen{X: p}
		}
		return p
	}
	var tree logql.LabelPredicate
	var want bool
	switch vsymChoice("shape", 4) {
	case 0:
		tree = &logql.LabelPredicateBinOp{Left: fp, Op: logql.OpOr, Right: wrap(&logql.LabelPredicateBinOp{Left: gp, Op: logql.OpAnd, Right: hp})}
		want = vsymOr(kf, vsymAnd(kg, kh))
	case 1:
		tree = &logql.LabelPredicateBinOp{Left: wrap(&logql.LabelPredicateBinOp{Left: fp, Op: logql.OpAnd, Right: gp}), Op: logql.OpOr, Right: hp}
		want = vsymOr(vsymAnd(kf, kg), kh)
	case 2:
		tree = &logql.LabelPredicateBinOp{Left: fp, Op: logql.OpAnd, Right: wrap(&logql.LabelPredicateBinOp{Left: gp, Op: logql.OpOr, Right: hp})}
		want = vsymAnd(kf, vsymOr(kg, kh))
	default:
		tree = &logql.LabelPredicateBinOp{Left: wrap(&logql.LabelPredicateBinOp{Left: fp, Op: logql.OpOr, Right: gp}), Op: logql.OpOr, Right: hp}
		want = vsymOr(vsymOr(kf, kg), kh)
	}
	proc, err := buildLabelPredicate(tree)
	vsymAssert(err == nil, "a nested predicate builds")
	l, k := proc.Process(1, line, set)
	vsymAssert(k == want, "a nested predicate selects the Boolean combination of what its leaves select (or = union, and = intersection, at every level)")
	vsymAssert(!k || l == line, "kept lines are unchanged")
	vsymReach("C19_nested")
}

func VerifHarness_C19_Nested_1() { verifC19Nested(1) }

func VerifHarness_C19_Algebra_1() { verifC19Algebra(1) }
func VerifHarness_C19_Algebra_2() { verifC19Algebra(2) }

// C19-O1b: the complement law on real regular expressions: a pool of pattern
// shapes (optional and counted groups, alternation, anchors, classes, case
// folding) against a pool of lines, through the real regexp package.
var verifRePatterns = []string{
	`x+y?[0-9]`, `(?:connection ){0,2}reset`, `(?:abc){0,}d`, `(?:abc)?d`, `(?:abc)*d`, `abc|d`, `^GET`, `error$`,
	`(?i)error`, `[a-c]{2,3}z`, `a.c`, `(foo|bar)+baz`, `\bid=\d+`, `(?:timeout){1,2}`, `.*`, `.+`, ``,
}

var verifReLines = []string{
	"", "d", "abcd", "reset by peer", "connection reset", "GET /", " GET", "ERROR", "an error", "error", "x1", "xy", "abz", "a\nc",
	"foobarbaz", "baz", "id=42", "pid=4x", "timeouttimeout", "time", "\xff\xfe", "d\n",
}

func VerifHarness_C19_RegexPool() {
	pat := verifRePatterns[vsymChoice("pattern", len(verifRePatterns))]
	line := verifReLines[vsymChoice("line", len(verifReLines))]
	re := regexp.MustCompile(pat)
	anch := regexp.MustCompile("^(?:" + pat + ")$")
	set := newLabelSet()
	set.Set("a", pcommon.NewValueStr(line))
	mk := func(op logql.BinOp) (Processor, Processor) {
		lf, err := buildLineFilter(&logql.LineFilter{Op: op, Value: pat, Re: re})
		vsymAssert(err == nil, "line filter builds")
		lm, err := buildLabelMatcher(logql.LabelMatcher{Label: "a", Op: op, Value: pat, Re: anch})
		vsymAssert(err == nil, "label matcher builds")
		return lf, lm
	}
	posL, posM := mk(logql.OpRe)
	negL, negM := mk(logql.OpNotRe)
	_, k1 := posL.Process(1, line, set)
	_, k2 := negL.Process(1, line, set)
	vsymAssert(k1 != k2, "exactly one of |~ r and !~ r keeps a line")
	vsymAssert(k1 == re.MatchString(line), "|~ r keeps exactly the lines r matches")
	_, k3 := posM.Process(1, "l", set)
	_, k4 := negM.Process(1, "l", set)
	vsymAssert(k3 != k4, "exactly one of =~ r and !~ r keeps a record")
	vsymAssert(k3 == anch.MatchString(line), "=~ r is a fully anchored match")
	vsymReach("C19_regex_pool")
}

// C01-O8 / C19-O2b: and / or over label filters of every kind (string,
// number, duration, bytes, ip): the combination keeps what its operands keep
// (intersection / union), and a kept record keeps its line, whichever operand
// decided and whatever the other operand did with a missing label.
func VerifHarness_C01_PredicateKinds() {
	line := vsymString("line", 2)
	set := newLabelSet()
	// label n: absent, or a value from a pool (parsable by some kinds only)
	vals := []string{"7", "3", "7s", "2KiB", "10.0.0.7", "abc"}
	if c := vsymChoice("n", len(vals)+1); c < len(vals) {
		set.Set("n", pcommon.NewValueStr(vals[c]))
	}
	if vsymBool("hasB") {
		set.Set("b", pcommon.NewValueStr(vsymString("b", 1)))
	}
	typed := []logql.LabelPredicate{
		&logql.NumberFilter{Label: "n", Op: logql.OpGt, Value: 5},
		&logql.DurationFilter{Label: "n", Op: logql.OpGt, Value: 5 * time.Second},
		&logql.BytesFilter{Label: "n", Op: logql.OpGt, Value: 1024},
		&logql.IPFilter{Label: "n", Op: logql.OpEq, Value: "10.0.0.0/24"},
	}
	tp := typed[vsymChoice("typed", len(typed))]
	sp := &logql.LabelMatcher{Label: "b", Op: []logql.BinOp{logql.OpEq, logql.OpNotEq}[vsymChoice("sop", 2)], Value: "x", Re: verifAnyRe}
	left, right := logql.LabelPredicate(tp), logql.LabelPredicate(sp)
	if vsymBool("swap") {
		left, right = right, left
	}
	op := []logql.BinOp{logql.OpAnd, logql.OpOr}[vsymChoice("op", 2)]
	// operands alone, each on its own copy of the labels (a filter may set __error__)
	alone := func(p logql.LabelPredicate) bool {
		proc, err := buildLabelPredicate(p)
		vsymAssert(err == nil, "operand builds")
		cp := newLabelSet()
		for k, v := range set.labels {
			cp.labels[k] = v
		}
		_, k := proc.Process(1, line, cp)
		return k
	}
	kl, kr := alone(left), alone(right)
	comb, err := buildLabelPredicate(&logql.LabelPredicateBinOp{Left: left, Op: op, Right: right})
	vsymAssert(err == nil, "the combination builds")
	out, keep := comb.Process(1, line, set)
	if op == logql.OpAnd {
		vsymAssert(keep == vsymAnd(kl, kr), "`p and q` keeps the records both keep")
	} else {
		vsymAssert(keep == vsymOr(kl, kr), "`p or q` keeps the records either keeps")
	}
	if keep && out != line && op == logql.OpOr && out == "" {
		vsymFinding("F21", true, "`p or q` returns a kept record with an EMPTY line when p is a number/duration/bytes/ip filter on a label the record does not have: the left operand's (\"\", false) overwrites the line handed to the right operand")
		return
	}
	vsymAssert(!keep || out == line, "a kept record keeps its line")
	vsymReach("C01_predicate_kinds")
}

// C19-O2c: `p or q` returns what p and q return alone: a record selected only
// by q comes back as q alone returns it, whatever the rejected operand p did to
// the labels on its way to rejecting it (a typed filter flags __error__ on an
// unparsable value and keeps; a following `and` operand may still reject).
func VerifHarness_C19_OrRejectedOperandLeavesNoTrace() {
	line := vsymString("line", 1)
	mk := func() LabelSet {
		set := newLabelSet()
		set.Set("a", pcommon.NewValueStr("notanumber"))
		set.Set("b", pcommon.NewValueStr("q"))
		set.Set("c", pcommon.NewValueStr("x"))
		return set
	}
	typed := []logql.LabelPredicate{
		&logql.NumberFilter{Label: "a", Op: logql.OpGt, Value: 5},
		&logql.DurationFilter{Label: "a", Op: logql.OpGt, Value: time.Second},
		&logql.BytesFilter{Label: "a", Op: logql.OpGt, Value: 1},
	}[vsymChoice("typed", 3)]
	rejecting := &logql.LabelPredicateBinOp{Left: typed, Op: logql.OpAnd, Right: &logql.LabelMatcher{Label: "b", Op: logql.OpEq, Value: "no", Re: verifAnyRe}}
	accepting := &logql.LabelMatcher{Label: "c", Op: logql.OpEq, Value: "x", Re: verifAnyRe}
	var pred logql.LabelPredicate = &logql.LabelPredicateBinOp{Left: &logql.LabelPredicateParen{X: rejecting}, Op: logql.OpOr, Right: accepting}
	if vsymBool("swap") {
		pred = &logql.LabelPredicateBinOp{Left: accepting, Op: logql.OpOr, Right: &logql.LabelPredicateParen{X: rejecting}}
	}
	proc, err := buildLabelPredicate(pred)
	vsymAssert(err == nil, "the predicate builds")
	set := mk()
	out, keep := proc.Process(1, line, set)
	vsymAssert(keep && out == line, "`p or q` keeps the record q keeps, line intact")
	if !verifNoErr(set) {
		vsymFinding("F44", true, "`p or q` returns a record selected by q alone with the __error__ label that the rejected operand p set on its way to rejecting it (`(a > 5 and b=\"no\") or c=\"x\"` on a record whose a is not a number): the result differs from q's and from `q or p`")
		return
	}
	vsymAssert(verifNoErr(set), "a record selected by q alone carries the labels q alone gives it")
	vsymReach("C19_or_no_trace")
}
