//go:build verif

package logqlengine

import (
	"regexp"

	"go.opentelemetry.io/collector/pdata/pcommon"

	"github.com/tdakkota/docker-logql/internal/logql"
)

// an arbitrary regex outside the precise table: matching is an uninterpreted
// predicate, so the laws below are shown for every regex behaviour
var verifAnyRe = regexp.MustCompile(`x+y?[0-9]`)

func verifLineFilter(op logql.BinOp, needle string) Processor {
	p, err := buildLineFilter(&logql.LineFilter{Op: op, Value: needle, Re: verifAnyRe})
	vsymAssert(err == nil, "line filter builds")
	return p
}

func verifLabelFilter(name string, op logql.BinOp, value string) Processor {
	p, err := buildLabelMatcher(logql.LabelMatcher{Label: logql.Label(name), Op: op, Value: value, Re: verifAnyRe})
	vsymAssert(err == nil, "label matcher builds")
	return p
}

func verifSetAB(tag string, maxLen int) LabelSet {
	set := newLabelSet()
	for _, n := range []string{"a", "b"} {
		if vsymBool(tag + "has") {
			set.Set(logql.Label(n), pcommon.NewValueStr(vsymString(tag+"val", vsymChoice(tag+"len", maxLen+1))))
		}
	}
	return set
}

// C19-O1: a filter and its negation split any record set into two disjoint
// parts; the line is never changed; `|= ""` keeps everything.
func verifC19Complement(lineLen, needleLen int) {
	line := vsymString("line", vsymChoice("linelen", lineLen+1))
	needle := vsymString("needle", vsymChoice("needlelen", needleLen+1))
	set := verifSetAB("", 1)
	pairs := [][2]Processor{
		{verifLineFilter(logql.OpEq, needle), verifLineFilter(logql.OpNotEq, needle)},
		{verifLineFilter(logql.OpRe, "x"), verifLineFilter(logql.OpNotRe, "x")},
		{verifLabelFilter("a", logql.OpEq, needle), verifLabelFilter("a", logql.OpNotEq, needle)},
		{verifLabelFilter("a", logql.OpRe, "x"), verifLabelFilter("a", logql.OpNotRe, "x")},
	}
	for _, pr := range pairs {
		l1, k1 := pr[0].Process(1, line, set)
		l2, k2 := pr[1].Process(1, line, set)
		vsymAssert(k1 != k2, "exactly one of a filter and its negation keeps a record")
		vsymAssert(l1 == line && l2 == line, "filters never change the line")
	}
	_, k := verifLineFilter(logql.OpEq, "").Process(1, line, set)
	vsymAssert(k, `|= "" keeps every line`)
	vsymReach("C19_complement")
}

func VerifHarness_C19_Complement_2() { verifC19Complement(2, 1) }
func VerifHarness_C19_Complement_3() { verifC19Complement(3, 2) }

// C19-O2/O3: and = intersection, or = union; stateless filters commute and
// are idempotent in a pipeline.
func verifC19Algebra(maxLen int) {
	line := vsymString("line", vsymChoice("linelen", maxLen+1))
	set := verifSetAB("", maxLen)
	ops := []logql.BinOp{logql.OpEq, logql.OpNotEq, logql.OpRe, logql.OpNotRe}
	mk := func(tag string) (Processor, logql.LabelPredicate) {
		kind := vsymChoice(tag+"kind", 2)
		op := ops[vsymChoice(tag+"op", 4)]
		v := vsymString(tag+"v", vsymChoice(tag+"vlen", maxLen+1))
		if kind == 0 {
			name := []string{"a", "b"}[vsymChoice(tag+"label", 2)]
			m := &logql.LabelMatcher{Label: logql.Label(name), Op: op, Value: v, Re: verifAnyRe}
			return verifLabelFilter(name, op, v), m
		}
		return verifLineFilter(op, v), nil
	}
	f, fp := mk("f")
	g, gp := mk("g")
	_, kf := f.Process(1, line, set)
	_, kg := g.Process(1, line, set)
	if fp != nil && gp != nil {
		and, err := buildLabelPredicate(&logql.LabelPredicateBinOp{Left: fp, Op: logql.OpAnd, Right: gp})
		vsymAssert(err == nil, "and builds")
		or, err := buildLabelPredicate(&logql.LabelPredicateBinOp{Left: fp, Op: logql.OpOr, Right: &logql.LabelPredicateParen{X: gp}})
		vsymAssert(err == nil, "or builds")
		l, k := and.Process(1, line, set)
		vsymAssert(k == vsymAnd(kf, kg) && (!k || l == line), "`a and b` selects the intersection")
		l, k = or.Process(1, line, set)
		vsymAssert(k == vsymOr(kf, kg) && (!k || l == line), "`a or b` selects the union")
	}
	fg := &Pipeline{Stages: []Processor{f, g}}
	gf := &Pipeline{Stages: []Processor{g, f}}
	ff := &Pipeline{Stages: []Processor{f, f}}
	l1, k1 := fg.Process(1, line, set)
	l2, k2 := gf.Process(1, line, set)
	l3, k3 := ff.Process(1, line, set)
	vsymAssert(k1 == k2 && k1 == vsymAnd(kf, kg), "stateless filters commute")
	vsymAssert(k3 == kf, "a stateless filter is idempotent")
	vsymAssert((!k1 || l1 == line) && (!k2 || l2 == line) && (!k3 || l3 == line), "q | f is a sub-multiset of q: kept lines are unchanged")
	vsymReach("C19_algebra")
}

func VerifHarness_C19_Algebra_1() { verifC19Algebra(1) }
func VerifHarness_C19_Algebra_2() { verifC19Algebra(2) }

// C19-O1b: the complement law on real regular expressions: a pool of pattern
// shapes (optional and counted groups, alternation, anchors, classes, case
// folding) against a pool of lines, through the real regexp package.
var verifRePatterns = []string{
	`x+y?[0-9]`, `(?:connection ){0,2}reset`, `(?:abc){0,}d`, `(?:abc)?d`, `(?:abc)*d`, `abc|d`, `^GET`, `error$`,
	`(?i)error`, `[a-c]{2,3}z`, `a.c`, `(foo|bar)+baz`, `\bid=\d+`, `(?:timeout){1,2}`, `.*`, `.+`, ``,
}

var verifReLines = []string{
	"", "d", "abcd", "reset by peer", "connection reset", "GET /", " GET", "ERROR", "an error", "error", "x1", "xy", "abz", "a\nc",
	"foobarbaz", "baz", "id=42", "pid=4x", "timeouttimeout", "time", "\xff\xfe", "d\n",
}

func VerifHarness_C19_RegexPool() {
	pat := verifRePatterns[vsymChoice("pattern", len(verifRePatterns))]
	line := verifReLines[vsymChoice("line", len(verifReLines))]
	re := regexp.MustCompile(pat)
	anch := regexp.MustCompile("^(?:" + pat + ")$")
	set := newLabelSet()
	set.Set("a", pcommon.NewValueStr(line))
	mk := func(op logql.BinOp) (Processor, Processor) {
		lf, err := buildLineFilter(&logql.LineFilter{Op: op, Value: pat, Re: re})
		vsymAssert(err == nil, "line filter builds")
		lm, err := buildLabelMatcher(logql.LabelMatcher{Label: "a", Op: op, Value: pat, Re: anch})
		vsymAssert(err == nil, "label matcher builds")
		return lf, lm
	}
	posL, posM := mk(logql.OpRe)
	negL, negM := mk(logql.OpNotRe)
	_, k1 := posL.Process(1, line, set)
	_, k2 := negL.Process(1, line, set)
	vsymAssert(k1 != k2, "exactly one of |~ r and !~ r keeps a line")
	vsymAssert(k1 == re.MatchString(line), "|~ r keeps exactly the lines r matches")
	_, k3 := posM.Process(1, "l", set)
	_, k4 := negM.Process(1, "l", set)
	vsymAssert(k3 != k4, "exactly one of =~ r and !~ r keeps a record")
	vsymAssert(k3 == anch.MatchString(line), "=~ r is a fully anchored match")
	vsymReach("C19_regex_pool")
}
