//go:build verif

package logqlengine

import (
	"context"
	"time"

	"github.com/tdakkota/docker-logql/internal/logql"
	"github.com/tdakkota/docker-logql/internal/otelstorage"
)

var verifC14Queries = []struct {
	q     string
	opens int
	bad   bool // a stage the parser accepts and the pipeline builder rejects
}{
	{`{a="b"}`, 1, false},
	{`{a="b"} |= "x" | json`, 1, false},
	{`count_over_time({a="b"}[1m])`, 1, false},
	{`sum by (a) (count_over_time({a="b"}[1m]))`, 1, false},
	{`topk(1, count_over_time({a="b"}[1m]))`, 1, false},
	{`count_over_time({a="b"}[1m]) + count_over_time({a="c"}[1m])`, 2, false},
	{`count_over_time({a="b"}[1m]) and count_over_time({a="c"}[1m])`, 2, false},
	{`2 * count_over_time({a="b"}[1m])`, 1, false},
	{`count_over_time({a="b"}[1m]) > 1`, 1, false},
	{`sum(count_over_time({a="b"}[1m])) / sum(bytes_over_time({a="b"}[1m]))`, 2, false},
	{`{a="b"} | line_format "{{ .foo"`, 0, true},
	{`count_over_time({a="b"} | line_format "{{ .foo" [1m])`, 0, true},
	{`count_over_time({a="b"}[1m]) + count_over_time({a="c"} | line_format "{{ .foo" [1m])`, 1, true},
}

// C14-O3: every reader the storage handed out is closed when evalExpr
// returns, for log and metric queries, on success and on every injected
// fault; a fault is reported as an error.
func verifC14Close(nq int) {
	qi := vsymChoice("query", nq)
	spec := verifC14Queries[qi]
	// fault: 0 none; 1..2 = that SelectLogs call fails; 3..4 = that reader
	// fails (before its first / after its first record)
	fault := vsymChoice("fault", 5)
	instant := vsymBool("instant")
	const t0 = int64(1700000000) * 1e9
	q := &verifQuerier{recs: nil}
	q.caps.Label.Add(logql.OpEq, logql.OpNotEq, logql.OpRe, logql.OpNotRe)
	q.recs = append(q.recs,
		verifRecord(t0+10e9, `{"k":"x1"}`, map[string]string{"a": "b"}),
		verifRecord(t0+70e9, `{"k":"x2"}`, map[string]string{"a": "b"}),
		verifRecord(t0+80e9, `x3`, map[string]string{"a": "c"}),
	)
	effective := false
	switch fault {
	case 1, 2:
		q.failOpen = fault
		effective = spec.opens >= fault
	case 3:
		q.failRead = 1
		q.failReadAt = 0
		effective = true
	case 4:
		q.failRead = vsymChoice("reader", 2) + 1
		q.failReadAt = 1
		effective = spec.opens >= q.failRead
	}
	e := verifEngine(q)
	expr, err := logql.Parse(spec.q, logql.ParseOptions{})
	vsymAssert(err == nil, "query parses")
	params := EvalParams{Start: otelstorage.Timestamp(t0), End: otelstorage.Timestamp(t0 + 120e9), Step: time.Minute, Limit: 100}
	if instant {
		params = EvalParams{Start: otelstorage.Timestamp(t0 + 120e9), End: otelstorage.Timestamp(t0 + 120e9), Step: 0, Limit: 100}
	}
	_, err = e.evalExpr(context.Background(), expr, params)
	if spec.bad {
		vsymAssert(err != nil, "a stage that cannot be built is reported as an error")
	} else if effective {
		vsymAssert(err != nil, "an injected fault surfaces as an error, never as a shorter result")
	} else {
		vsymAssert(err == nil, "evaluation succeeds without faults")
	}
	vsymAssert(q.opened == q.closed, "every opened log reader is closed when evaluation returns")
	vsymReach("C14_close")
}

func VerifHarness_C14_Close() { verifC14Close(len(verifC14Queries)) }
