//go:build verif

package jsonexpr

import "strconv"

// C06-O2: jsonexpr.Parse(print(path)) == path.
func verifC06PathRoundTrip(n int) {
	text := ""
	var want Path
	for i := 0; i < n; i++ {
		switch vsymChoice("kind", 3) {
		case 0: // .field / leading field
			name := vsymString("name", 1+vsymChoice("namelen", 2))
			c := name[0]
			vsymAssume(vsymOr(vsymOr(vsymAnd(c >= 'a', c <= 'z'), vsymAnd(c >= 'A', c <= 'Z')), c == '_'))
			for k := 1; k < len(name); k++ {
				c := name[k]
				vsymAssume(vsymOr(vsymOr(vsymAnd(c >= 'a', c <= 'z'), vsymAnd(c >= '0', c <= '9')), vsymOr(vsymAnd(c >= 'A', c <= 'Z'), c == '_')))
			}
			if i > 0 || vsymChoice("dot", 2) == 1 {
				text += "."
			}
			text += name
			want = append(want, KeySel(name))
		case 1: // [index]
			idx := vsymChoice("index", 100)
			text += "[" + strconv.Itoa(idx) + "]"
			want = append(want, IndexSel(idx))
		default: // ["key"]
			// a key from the pool, or 1..2 arbitrary printable ASCII bytes
			// (quotes and backslashes included), written as a Go-quoted string
			key := ""
			if c := vsymChoice("key", 5); c < 4 {
				key = []string{"a b", "k.3", `q"uote`, ""}[c]
			} else {
				key = vsymString("keybytes", 1+vsymChoice("keylen", 2))
				for k := 0; k < len(key); k++ {
					vsymAssume(vsymAnd(key[k] >= 0x20, key[k] < 0x7f))
				}
			}
			quoted := strconv.Quote(key)
			text += "[" + quoted + "]"
			want = append(want, KeySel(key))
		}
	}
	got, err := Parse(text)
	if err != nil && n == 1 && len(want) == 1 && want[0].Type == Key && len(want[0].Key) > 0 && want[0].Key[len(want[0].Key)-1] == '\\' {
		vsymFinding("F27", true, "a quoted path key that ends in a backslash ([\"a\\\\\"]) is rejected: the scanner steps over the first backslash of the pair only and takes the second one with the closing quote for an escaped quote")
		return
	}
	vsymAssert(err == nil, "a printed path parses")
	vsymAssert(len(got) == len(want), "the path has as many selectors as were written")
	for i := range want {
		if i < len(got) {
			vsymAssert(got[i].Type == want[i].Type && got[i].Index == want[i].Index && got[i].Key == want[i].Key, "every selector is the one that was written")
		}
	}
	vsymReach("C06_jsonexpr")
}

func VerifHarness_C06_PathRoundTrip_1() { verifC06PathRoundTrip(1) }
func VerifHarness_C06_PathRoundTrip_2() { verifC06PathRoundTrip(2) }
func VerifHarness_C06_PathRoundTrip_3() { verifC06PathRoundTrip(3) }

// C17-O2: jsonexpr.Parse never panics on arbitrary bytes.
func verifC17JSONExprBytes(n int) {
	s := vsymString("expr", vsymChoice("len", n+1))
	_, _ = Parse(s)
	vsymReach("C17_jsonexpr")
}

func VerifHarness_C17_JSONExprBytes_3() { verifC17JSONExprBytes(3) }
func VerifHarness_C17_JSONExprBytes_4() { verifC17JSONExprBytes(4) }
