//go:build verif

package logqlengine

import (
	"regexp"

	"go.opentelemetry.io/collector/pdata/pcommon"

	"github.com/tdakkota/docker-logql/internal/logql"
)

func verifGet(set LabelSet, name string) (string, bool) {
	return set.GetString(logql.Label(name))
}

// C07-O1: `label_format dst=src` from query text, through the real parser
// and builder: src is renamed to dst, nothing else changes.
func verifC07Rename(two bool) {
	q := `{x="y"} | label_format dst=src`
	if two {
		q = `{x="y"} | label_format dst=src,d2=s2`
	}
	expr, err := logql.Parse(q, logql.ParseOptions{})
	vsymAssert(err == nil, "label_format query parses")
	stage := expr.(*logql.LogExpr).Pipeline[0].(*logql.LabelFormatExpr)
	proc, err := buildLabelFormat(stage)
	vsymAssert(err == nil, "label_format stage builds")

	hasSrc, hasDst := vsymBool("hasSrc"), vsymBool("hasDst")
	v, u, w := vsymString("v", 1), vsymString("u", 1), vsymString("w", 1)
	set := newLabelSet()
	if hasSrc {
		set.Set("src", pcommon.NewValueStr(v))
	}
	if hasDst {
		set.Set("dst", pcommon.NewValueStr(u))
	}
	set.Set("other", pcommon.NewValueStr(w))
	hasS2 := false
	v2 := ""
	if two {
		hasS2 = vsymBool("hasS2")
		v2 = vsymString("v2", 1)
		if hasS2 {
			set.Set("s2", pcommon.NewValueStr(v2))
		}
	}
	line := vsymString("line", 2)
	out, keep := proc.Process(1, line, set)
	vsymAssert(keep, "label_format never drops a line")
	vsymAssert(out == line, "label_format does not change the line")
	gotDst, okDst := verifGet(set, "dst")
	_, okSrc := verifGet(set, "src")
	gotOther, okOther := verifGet(set, "other")
	vsymAssert(okOther && gotOther == w, "unrelated labels are untouched")
	if hasSrc {
		vsymAssert(okDst && gotDst == v, "dst carries the former value of src")
		vsymAssert(!okSrc, "src is gone after the rename")
	} else {
		vsymAssert(!okSrc, "absent src stays absent")
		vsymAssert(okDst == hasDst && (!hasDst || gotDst == u), "without src, dst is left as it was")
	}
	if two {
		gotD2, okD2 := verifGet(set, "d2")
		_, okS2 := verifGet(set, "s2")
		if hasS2 {
			vsymAssert(okD2 && gotD2 == v2 && !okS2, "second pair: s2 renamed to d2")
		} else {
			vsymAssert(!okD2 && !okS2, "second pair: nothing to rename")
		}
	}
	vsymReach("C07_rename")
}

func VerifHarness_C07_Rename_1() { verifC07Rename(false) }
func VerifHarness_C07_Rename_2() { verifC07Rename(true) }

// C07-O2: drop / keep over a label set of up to three labels, a name list and
// up to one value matcher with a symbolic operator.
func verifC07DropKeep(isKeep bool, valLen int) {
	names := []string{"a", "b", "c"}
	has := make([]bool, 3)
	vals := make([]string, 3)
	set := newLabelSet()
	for i, n := range names {
		has[i] = vsymBool("has")
		vals[i] = vsymString("val", valLen)
		if has[i] {
			set.Set(logql.Label(n), pcommon.NewValueStr(vals[i]))
		}
	}
	// name list: any subset of {a, b, d}
	listed := map[string]bool{}
	var list []logql.Label
	for _, n := range []string{"a", "b", "d"} {
		if vsymBool("listed") {
			listed[n] = true
			list = append(list, logql.Label(n))
		}
	}
	// optional matcher on b or c
	var matchers []logql.LabelMatcher
	mLabel := ""
	var mOp logql.BinOp
	mVal := ""
	mRe := 0
	if vsymBool("withMatcher") {
		mLabel = []string{"b", "c"}[vsymChoice("mlabel", 2)]
		mOp = []logql.BinOp{logql.OpEq, logql.OpNotEq, logql.OpRe, logql.OpNotRe}[vsymChoice("mop", 4)]
		mVal = vsymString("mval", valLen)
		mRe = vsymChoice("mre", 3)
		matchers = append(matchers, logql.LabelMatcher{Label: logql.Label(mLabel), Op: mOp, Value: mVal,
			Re: regexp.MustCompile("^(?:" + verifTableRe[mRe] + ")$")})
	}
	var proc Processor
	var err error
	if isKeep {
		proc, err = buildKeepLabels(&logql.KeepLabelsExpr{Labels: list, Matchers: matchers})
	} else {
		proc, err = buildDropLabels(&logql.DropLabelsExpr{Labels: list, Matchers: matchers})
	}
	vsymAssert(err == nil, "drop/keep stage builds")
	line := vsymString("line", 1)
	out, keep := proc.Process(1, line, set)
	vsymAssert(keep && out == line, "drop/keep never drop or change the line")
	for i, n := range names {
		// selected(n): named, or the matcher is on n and matches its value
		sel := listed[n]
		if n == mLabel {
			// a label that is both named and matched: the items select on their own (union)
			sel = vsymOr(sel, verifRefLabelMatch(mOp, vals[i], mVal, mRe))
		}
		got, ok := verifGet(set, n)
		if !has[i] {
			vsymAssert(!ok, "absent labels stay absent")
			continue
		}
		survives := vsymNot(sel)
		if isKeep {
			survives = sel
		}
		vsymAssert(ok == survives, "exactly the selected labels are dropped (drop) / kept (keep)")
		if ok {
			vsymAssert(got == vals[i], "surviving labels keep their value")
		}
	}
	vsymReach("C07_dropkeep")
}

func VerifHarness_C07_Drop_1() { verifC07DropKeep(false, 1) }
func VerifHarness_C07_Keep_1() { verifC07DropKeep(true, 1) }
func VerifHarness_C07_Drop_2() { verifC07DropKeep(false, 2) }
func VerifHarness_C07_Keep_2() { verifC07DropKeep(true, 2) }

// C07-O2b: several drop/keep items on ONE label: the label named and matched,
// or matched by two matchers.  Every item of the list selects labels on its
// own, so the label is selected when it is named or when any matcher on it
// matches its value.
func verifC07DropKeepSameLabel(isKeep bool) {
	set := newLabelSet()
	val := vsymString("val", 1)
	set.Set("b", pcommon.NewValueStr(val))
	set.Set("other", pcommon.NewValueStr("o"))
	named := vsymBool("named")
	var list []logql.Label
	if named {
		list = append(list, "b")
	}
	nm := 1 + vsymChoice("matchers", 2)
	if !named {
		nm = 2
	}
	sel := named
	all := true
	var matchers []logql.LabelMatcher
	for k := 0; k < nm; k++ {
		op := []logql.BinOp{logql.OpEq, logql.OpNotEq, logql.OpRe, logql.OpNotRe}[vsymChoice("mop", 4)]
		mval := vsymString("mval", 1)
		re := vsymChoice("mre", 3)
		matchers = append(matchers, logql.LabelMatcher{Label: "b", Op: op, Value: mval, Re: regexp.MustCompile("^(?:" + verifTableRe[re] + ")$")})
		hit := verifRefLabelMatch(op, val, mval, re)
		sel = vsymOr(sel, hit)
		all = vsymAnd(all, hit)
	}
	var proc Processor
	var err error
	if isKeep {
		proc, err = buildKeepLabels(&logql.KeepLabelsExpr{Labels: list, Matchers: matchers})
	} else {
		proc, err = buildDropLabels(&logql.DropLabelsExpr{Labels: list, Matchers: matchers})
	}
	vsymAssert(err == nil, "drop/keep stage builds")
	out, keep := proc.Process(1, "l", set)
	vsymAssert(keep && out == "l", "drop/keep never drop or change the line")
	_, ok := verifGet(set, "b")
	survives := vsymNot(sel)
	conjSurvives := vsymNot(all)
	if isKeep {
		survives, conjSurvives = sel, all
	}
	if ok != survives && ok == conjSurvives {
		vsymFinding("F26", true, "drop/keep treat several items on one label as a conjunction: `drop b, b=\"x\"` keeps b=\"y\" although b is named, and `drop b=\"x\", b=\"y\"` drops nothing (each item of the list selects labels on its own)")
		return
	}
	vsymAssert(ok == survives, "the label is dropped (drop) / kept (keep) iff it is named or some matcher on it matches")
	_, okOther := verifGet(set, "other")
	vsymAssert(okOther == !isKeep, "labels no item mentions are kept by drop and removed by keep")
	vsymReach("C07_dropkeep_same_label")
}

func VerifHarness_C07_DropSameLabel() { verifC07DropKeepSameLabel(false) }
func VerifHarness_C07_KeepSameLabel() { verifC07DropKeepSameLabel(true) }

// C07-O1c: a label renamed to itself (`label_format a=a`, which the parser
// accepts) keeps its value: renaming src to dst leaves dst = old src.
func VerifHarness_C07_RenameSelf() {
	expr, err := logql.Parse(`{x="y"} | label_format a=a`, logql.ParseOptions{})
	vsymAssert(err == nil, "label_format a=a parses")
	proc, err := buildLabelFormat(expr.(*logql.LogExpr).Pipeline[0].(*logql.LabelFormatExpr))
	vsymAssert(err == nil, "label_format stage builds")
	v := vsymString("v", 1)
	set := newLabelSet()
	set.Set("a", pcommon.NewValueStr(v))
	set.Set("b", pcommon.NewValueStr("2"))
	_, keep := proc.Process(1, "l", set)
	vsymAssert(keep, "label_format never drops a line")
	got, ok := verifGet(set, "a")
	if !ok {
		vsymFinding("F36", true, "`label_format a=a` deletes label a: the value is stored under the destination and the source is then deleted, which is the same label")
		return
	}
	vsymAssert(ok && got == v, "a label renamed to itself keeps its value")
	_, okB := verifGet(set, "b")
	vsymAssert(okB, "other labels are untouched")
	vsymReach("C07_rename_self")
}

// C07-O1d: a label_format stage mixing templates and renames, from query text:
// the assignments take effect in the order written, each template expanding
// over the labels current at that point.
func VerifHarness_C07_LabelFormatOrder() {
	v := vsymString("v", 1)
	set := newLabelSet()
	set.Set("a", pcommon.NewValueStr(v))
	q := []string{
		`{x="y"} | label_format c="{{.a}}", b=a`, // the template is written before the rename: a still exists
		`{x="y"} | label_format b=a, c="{{.b}}"`, // the template is written after the rename: b exists
	}[vsymChoice("query", 2)]
	expr, err := logql.Parse(q, logql.ParseOptions{})
	vsymAssert(err == nil, "the query parses")
	proc, err := buildLabelFormat(expr.(*logql.LogExpr).Pipeline[0].(*logql.LabelFormatExpr))
	vsymAssert(err == nil, "label_format stage builds")
	_, keep := proc.Process(1, "l", set)
	vsymAssert(keep && verifNoErr(set), "label_format keeps the line and raises no error")
	b, okb := verifGet(set, "b")
	vsymAssert(okb && b == v, "the rename takes effect")
	c, okc := verifGet(set, "c")
	if okc && c == "" && v != "" {
		vsymFinding("F38", true, "in a label_format stage that mixes templates and renames all renames run before all templates, whatever the order written: `label_format c=\"{{.a}}\", b=a` sets c to the empty string because a is already renamed away when the template expands")
		return
	}
	vsymAssert(okc && c == v, "a template expands over the labels current where it is written")
	vsymReach("C07_label_format_order")
}
