//go:build verif

package logqlengine

import (
	"context"
	"errors"
	"time"

	"go.opentelemetry.io/collector/pdata/pcommon"
	"go.opentelemetry.io/otel/trace/noop"

	"github.com/tdakkota/docker-logql/internal/iterators"
	"github.com/tdakkota/docker-logql/internal/logql"
	"github.com/tdakkota/docker-logql/internal/logstorage"
	"github.com/tdakkota/docker-logql/internal/otelstorage"
)

var errVerifFake = errors.New("verif: injected fault")

// verifRecIter serves records; it may fail after failAt records.
type verifRecIter struct {
	recs   []logstorage.Record
	n      int
	failAt int // -1: never
	err    error
	closed *int
}

func (i *verifRecIter) Next(r *logstorage.Record) bool {
	if i.failAt >= 0 && i.n >= i.failAt {
		i.err = errVerifFake
		return false
	}
	if i.n >= len(i.recs) {
		return false
	}
	*r = i.recs[i.n]
	i.n++
	return true
}
func (i *verifRecIter) Err() error   { return i.err }
func (i *verifRecIter) Close() error { *i.closed++; return nil }

// verifQuerier is a storage back end with configurable capabilities that
// counts opened and closed readers and can inject faults.
type verifQuerier struct {
	caps       QuerierCapabilities
	recs       []logstorage.Record
	opened     int
	closed     int
	failOpen   int // 1-based index of the SelectLogs call that fails, 0 = none
	failRead   int // 1-based index of the reader that fails, 0 = none
	failReadAt int // after that many records
	applyLine  bool
	calls      []SelectLogsParams
	starts     []otelstorage.Timestamp
	ends       []otelstorage.Timestamp
	refLabel   func(m logql.LabelMatcher, rec logstorage.Record) bool
	refLine    func(f logql.LineFilter, rec logstorage.Record) bool
}

func (q *verifQuerier) Capabilities() QuerierCapabilities { return q.caps }

func (q *verifQuerier) SelectLogs(_ context.Context, start, end otelstorage.Timestamp, params SelectLogsParams) (iterators.Iterator[logstorage.Record], error) {
	q.calls = append(q.calls, params)
	q.starts = append(q.starts, start)
	q.ends = append(q.ends, end)
	if q.failOpen == len(q.calls) {
		return nil, errVerifFake
	}
	q.opened++
	// the back end applies exactly the conditions it was handed
	var out []logstorage.Record
	for _, rec := range q.recs {
		keep := true
		if q.refLabel != nil {
			for _, m := range params.Labels {
				if !q.refLabel(m, rec) {
					keep = false
				}
			}
		}
		if q.applyLine && q.refLine != nil {
			for _, f := range params.Line {
				if !q.refLine(f, rec) {
					keep = false
				}
			}
		}
		if keep {
			out = append(out, rec)
		}
	}
	it := &verifRecIter{recs: out, failAt: -1, closed: &q.closed}
	if q.failRead == q.opened {
		it.failAt = q.failReadAt
	}
	return it, nil
}

func verifEngine(q *verifQuerier) *Engine {
	return &Engine{
		querier:          q,
		querierCaps:      q.Capabilities(),
		lookbackDuration: -30 * time.Second,
		tracer:           noop.NewTracerProvider().Tracer("verif"),
	}
}

func verifRecord(ts int64, body string, attrs map[string]string) logstorage.Record {
	m := pcommon.NewMap()
	for k, v := range attrs {
		m.PutStr(k, v)
	}
	return logstorage.Record{Timestamp: otelstorage.Timestamp(ts), Body: body, ResourceAttrs: otelstorage.Attrs(m)}
}

func verifTS(u uint64) otelstorage.Timestamp { return otelstorage.Timestamp(u) }
