//go:build verif

package logqlengine

import "github.com/tdakkota/docker-logql/internal/logql"

// Table regexes (DESIGN A.1).
var verifTableRe = []string{"a.*", ".*b", "a|b"}

// verifRefFullMatch: byte-level meaning of ^(?:re)$ for the table regexes.
func verifRefFullMatch(re int, s string) bool {
	n := len(s)
	switch re {
	case 0: // a.*
		if n == 0 {
			return false
		}
		ok := s[0] == 'a'
		for i := 1; i < n; i++ {
			ok = vsymAnd(ok, s[i] != '\n')
		}
		return ok
	case 1: // .*b
		if n == 0 {
			return false
		}
		ok := s[n-1] == 'b'
		for i := 0; i < n-1; i++ {
			ok = vsymAnd(ok, s[i] != '\n')
		}
		return ok
	default: // a|b
		if n != 1 {
			return false
		}
		return vsymOr(s[0] == 'a', s[0] == 'b')
	}
}

// verifRefSearch: unanchored search for the table regexes.
func verifRefSearch(re int, s string) bool {
	ok := false
	for i := 0; i < len(s); i++ {
		switch re {
		case 0:
			ok = vsymOr(ok, s[i] == 'a')
		case 1:
			ok = vsymOr(ok, s[i] == 'b')
		default:
			ok = vsymOr(ok, vsymOr(s[i] == 'a', s[i] == 'b'))
		}
	}
	return ok
}

// verifRefLabelMatch: LogQL label matcher semantics (A.1).
func verifRefLabelMatch(op logql.BinOp, s, v string, re int) bool {
	switch op {
	case logql.OpEq:
		return s == v
	case logql.OpNotEq:
		return s != v
	case logql.OpRe:
		return verifRefFullMatch(re, s)
	case logql.OpNotRe:
		return vsymNot(verifRefFullMatch(re, s))
	}
	return false
}

// verifRefContains: substring test without forking.
func verifRefContains(s, sub string) bool {
	if len(sub) == 0 {
		return true
	}
	ok := false
	for i := 0; i+len(sub) <= len(s); i++ {
		ok = vsymOr(ok, s[i:i+len(sub)] == sub)
	}
	return ok
}

// verifRefLineMatch: LogQL line filter semantics (A.1).
func verifRefLineMatch(op logql.BinOp, line, v string, re int) bool {
	switch op {
	case logql.OpEq:
		return verifRefContains(line, v)
	case logql.OpNotEq:
		return vsymNot(verifRefContains(line, v))
	case logql.OpRe:
		return verifRefSearch(re, line)
	case logql.OpNotRe:
		return vsymNot(verifRefSearch(re, line))
	}
	return false
}
