//go:build verif

package logqlengine

import (
	"strconv"
	"math"
	"time"

	"go.opentelemetry.io/collector/pdata/pcommon"

	"github.com/tdakkota/docker-logql/internal/logql"
)

// C09-O3: what one log line contributes to a range aggregation.
func VerifHarness_C09_Extractors() {
	op := logql.RangeOp(vsymInt("op"))
	vsymAssume(op >= logql.RangeOpCount)
	vsymAssume(op <= logql.RangeOpAbsent)
	line := vsymString("line", vsymChoice("linelen", 4))
	vals := []struct {
		text string
		num  float64
		byt  float64
		dur  float64
	}{{"5", 5, 5, -1}, {"2.5", 2.5, 2, -1}, {"2KiB", -1, 2048, -1}, {"90s", -1, -1, 90}, {"1m30s", -1, -1, 90}, {"oops", -1, -1, -1}}
	vi := vsymChoice("value", len(vals))
	has := vsymBool("hasLabel")
	conv := []string{"", "bytes", "duration", "duration_seconds"}[vsymChoice("conv", 4)]
	withUnwrap := vsymBool("unwrap")
	set := newLabelSet()
	if has {
		set.Set("v", pcommon.NewValueStr(vals[vi].text))
	}
	expr := &logql.RangeAggregationExpr{Op: op}
	expr.Range.Range = time.Minute
	if withUnwrap {
		expr.Range.Unwrap = &logql.UnwrapExpr{Op: conv, Label: "v"}
	}
	ex, err := buildSampleExtractor(expr)
	needsUnwrap := false
	switch op {
	case logql.RangeOpCount, logql.RangeOpRate, logql.RangeOpAbsent:
	case logql.RangeOpBytes, logql.RangeOpBytesRate:
	default:
		needsUnwrap = true
	}
	if needsUnwrap && !withUnwrap {
		vsymAssert(err != nil, "an unwrapped aggregation without unwrap is an error, not a guess")
		vsymReach("C09_extractors")
		return
	}
	vsymAssert(err == nil, "sample extractor builds")
	got, ok := ex.Extract(entry{ts: 1, line: line, set: set})
	// rate over unwrapped values is their sum per second (the batch aggregator
	// chosen for it sums): each line contributes its unwrapped value, not 1
	rateUnwrapped := op == logql.RangeOpRate && withUnwrap
	if rateUnwrapped && ok && got == 1 {
		want := vals[vi].num
		if conv == "bytes" {
			want = vals[vi].byt
		} else if conv != "" {
			want = vals[vi].dur
		}
		if !has || (want >= 0 && want != 1) {
			vsymFinding("F43", true, "rate(... | unwrap v [r]) counts lines: the sample extractor for rate ignores the unwrap expression and contributes 1 per line, while the aggregator chosen for rate-with-unwrap sums the samples and divides by the range, so the result is lines per second instead of the sum of the unwrapped values per second")
			return
		}
	}
	switch {
	case rateUnwrapped:
		op = logql.RangeOpSum // judged like the other unwrapped functions below
	}
	switch op {
	case logql.RangeOpCount, logql.RangeOpRate, logql.RangeOpAbsent:
		vsymAssert(ok && got == 1, "count/rate/absent: every line contributes 1")
	case logql.RangeOpBytes, logql.RangeOpBytesRate:
		vsymAssert(ok && got == float64(len(line)), "bytes_over_time/bytes_rate: every line contributes its length in bytes")
	default:
		if !has {
			vsymAssert(!ok, "a line without the unwrapped label contributes no sample")
			break
		}
		want := -1.0
		switch conv {
		case "":
			want = vals[vi].num
		case "bytes":
			want = vals[vi].byt
		default:
			want = vals[vi].dur
		}
		if want >= 0 {
			vsymAssert(ok && got == want, "unwrap: the label value converted by the named conversion")
		}
	}
	vsymReach("C09_extractors")
}

// C01-O3: comparator label filters (number / duration / bytes).
func VerifHarness_C01_Comparators() {
	kind := vsymChoice("kind", 3)
	ops := []logql.BinOp{logql.OpEq, logql.OpNotEq, logql.OpGt, logql.OpGte, logql.OpLt, logql.OpLte}
	op := ops[vsymChoice("op", len(ops))]
	has := vsymBool("hasLabel")
	line := vsymString("line", 1)
	set := newLabelSet()
	var proc Processor
	var err error
	parsed := false
	holds := false
	switch kind {
	case 0:
		vals := []struct {
			s string
			f float64
			ok bool
		}{{"5", 5, true}, {"-2.5", -2.5, true}, {"1e3", 1000, true}, {"abc", 0, false}, {"", 0, false},
			{"NaN", math.NaN(), true}, {"+Inf", math.Inf(1), true}, {"-Inf", math.Inf(-1), true}}
		v := vals[vsymChoice("value", len(vals))]
		th := vsymFloat64("threshold") // any float64, NaN and the infinities included: IEEE comparison
		if has {
			set.Set("v", pcommon.NewValueStr(v.s))
		}
		proc, err = buildNumberLabelFilter(&logql.NumberFilter{Label: "v", Op: op, Value: th})
		parsed = v.ok
		holds = verifCmpF(op, v.f, th)
	case 1:
		vals := []struct {
			s string
			d time.Duration
			ok bool
		}{{"5s", 5 * time.Second, true}, {"1m30s", 90 * time.Second, true}, {"250ms", 250 * time.Millisecond, true}, {"5", 0, false}, {"soon", 0, false}}
		v := vals[vsymChoice("value", len(vals))]
		th := time.Duration(vsymInt64("threshold"))
		if has {
			set.Set("v", pcommon.NewValueStr(v.s))
		}
		proc, err = buildDurationLabelFilter(&logql.DurationFilter{Label: "v", Op: op, Value: th})
		parsed = v.ok
		holds = verifCmpI(op, int64(v.d), int64(th))
	default:
		vals := []struct {
			s string
			b uint64
			ok bool
		}{{"5", 5, true}, {"2KiB", 2048, true}, {"1MB", 1000000, true}, {"x", 0, false}, {"5 parsecs", 0, false}}
		v := vals[vsymChoice("value", len(vals))]
		th := vsymUint64("threshold")
		if has {
			set.Set("v", pcommon.NewValueStr(v.s))
		}
		proc, err = buildBytesLabelFilter(&logql.BytesFilter{Label: "v", Op: op, Value: th})
		parsed = v.ok
		holds = verifCmpU(op, v.b, th)
	}
	vsymAssert(err == nil, "comparator filter builds")
	out, keep := proc.Process(1, line, set)
	switch {
	case !has:
		vsymAssert(!keep, "a record without the label does not satisfy a comparison")
	case !parsed:
		vsymAssert(keep && out == line && !verifNoErr(set), "an unparsable value keeps the line and flags __error__")
	default:
		vsymAssert(keep == holds, "kept iff value op threshold")
		vsymAssert(!keep || out == line, "a kept line is unchanged")
		vsymAssert(verifNoErr(set), "no error label for a parsable value")
	}
	vsymReach("C01_comparators")
}

func verifCmpF(op logql.BinOp, a, b float64) bool {
	switch op {
	case logql.OpEq:
		return a == b
	case logql.OpNotEq:
		return a != b
	case logql.OpGt:
		return a > b
	case logql.OpGte:
		return a >= b
	case logql.OpLt:
		return a < b
	}
	return a <= b
}

func verifCmpI(op logql.BinOp, a, b int64) bool {
	switch op {
	case logql.OpEq:
		return a == b
	case logql.OpNotEq:
		return a != b
	case logql.OpGt:
		return a > b
	case logql.OpGte:
		return a >= b
	case logql.OpLt:
		return a < b
	}
	return a <= b
}

func verifCmpU(op logql.BinOp, a, b uint64) bool {
	switch op {
	case logql.OpEq:
		return a == b
	case logql.OpNotEq:
		return a != b
	case logql.OpGt:
		return a > b
	case logql.OpGte:
		return a >= b
	case logql.OpLt:
		return a < b
	}
	return a <= b
}

// C01-O5: distinct on one label: record j is kept iff no earlier record
// carried the same value (records without the label are kept).
func verifC01Distinct(N int) {
	proc, err := buildDistinctFilter(&logql.DistinctFilter{Labels: []logql.Label{"v"}})
	vsymAssert(err == nil, "distinct builds")
	vals := make([]string, N)
	has := make([]bool, N)
	for j := 0; j < N; j++ {
		vals[j] = vsymString("v", 1)
		has[j] = vsymBool("has")
		set := newLabelSet()
		if has[j] {
			set.Set("v", pcommon.NewValueStr(vals[j]))
		}
		line := vsymString("line", 1)
		out, keep := proc.Process(1, line, set)
		want := true
		if has[j] {
			for i := 0; i < j; i++ {
				if has[i] {
					want = vsymAnd(want, vals[i] != vals[j])
				}
			}
		}
		vsymAssert(keep == want, "distinct keeps a record iff its value was not seen before")
		vsymAssert(!keep || out == line, "distinct does not change the line")
	}
	vsymReach("C01_distinct")
}

// C01-O5b: distinct on TWO labels, one name a prefix of the other ("a",
// "ab"), values of 0..maxLen symbolic bytes: the labels are independent
// dimensions. Reference = the documented loop: for each label in order, a
// record lacking it is kept at once, a record whose (label, value) was seen
// is dropped, otherwise the pair is remembered.
func verifC01Distinct2(N int, maxLen int) {
	names := []logql.Label{"a", "ab"}
	proc, err := buildDistinctFilter(&logql.DistinctFilter{Labels: names})
	vsymAssert(err == nil, "distinct builds")
	type seenRec struct {
		valid bool
		val   string
	}
	seen := [2][]seenRec{}
	for j := 0; j < N; j++ {
		set := newLabelSet()
		var vals [2]string
		var has [2]bool
		for k := range names {
			vals[k] = vsymString("v", vsymChoice("vlen", maxLen+1))
			has[k] = vsymBool("has")
			if has[k] {
				set.Set(names[k], pcommon.NewValueStr(vals[k]))
			}
		}
		line := vsymString("line", 1)
		out, keep := proc.Process(1, line, set)
		want := false
		for k := range names {
			if !has[k] {
				want = true
				break
			}
			dup := false
			for _, r := range seen[k] {
				if r.valid && r.val == vals[k] {
					dup = true
				}
			}
			if dup {
				want = false
				break
			}
			seen[k] = append(seen[k], seenRec{true, vals[k]})
			want = true
		}
		vsymAssert(keep == want, "distinct over two labels: a record is dropped iff, going through the labels in order, one of its values was seen before under THAT label")
		vsymAssert(!keep || out == line, "distinct does not change the line")
	}
	vsymReach("C01_distinct2")
}

func VerifHarness_C01_Distinct2_2() { verifC01Distinct2(2, 2) }
func VerifHarness_C01_Distinct2_3() { verifC01Distinct2(3, 2) }

func VerifHarness_C01_Distinct_3() { verifC01Distinct(3) }
func VerifHarness_C01_Distinct_4() { verifC01Distinct(4) }

// C01-O6: ip() line filter: `|= ip(x)` keeps a line iff it contains an address
// matching x; `!= ip(x)` keeps exactly the lines `|= ip(x)` drops.
func VerifHarness_C01_IPLineFilter() {
	lines := []string{"hello", "from 10.0.0.1 to", "10.0.0.1", "1.1.1.1 2.2.2.2", "10.0.0.1 9.9.9.9", "::1 and 10.0.0.7", "999.1.1.1", "", "a 10.0.0.256 b", "x10.0.0.1y"}
	line := lines[vsymChoice("line", len(lines))]
	pat := []string{"10.0.0.1", "10.0.0.0/8", "1.1.1.1-2.2.2.2"}[vsymChoice("pattern", 3)]
	pos, err := buildLineFilter(&logql.LineFilter{Op: logql.OpEq, Value: pat, IP: true})
	vsymAssert(err == nil, "ip line filter builds")
	neg, err := buildLineFilter(&logql.LineFilter{Op: logql.OpNotEq, Value: pat, IP: true})
	vsymAssert(err == nil, "negated ip line filter builds")
	l1, k1 := pos.Process(1, line, newLabelSet())
	l2, k2 := neg.Process(1, line, newLabelSet())
	vsymAssert(l1 == line && l2 == line, "ip filters never change the line")
	vsymFinding("F9", k1 == k2, "`!= ip(x)` is not the complement of `|= ip(x)`: a line without any address is dropped by both, a line with a matching and a non-matching address is kept by both")
	vsymReach("C01_ip")
}

// C01-O7: ip() label filters: `| addr = ip(P)` keeps the records whose label
// is an address inside P (single address, CIDR prefix or range), `!=` the
// others; a value that is no address keeps the line and flags __error__; a
// record without the label satisfies neither.
func VerifHarness_C01_IPLabelFilter() {
	// label value: 10.0.c.d with c, d from pools, or something else
	thirds := []int{0, 1}
	lasts := []int{0, 1, 8, 9, 15, 16, 200, 255}
	kind := vsymChoice("value", 5) // 0 v4 from the pools, 1 absent, 2 not an address, 3 IPv6, 4 IPv4-mapped IPv6
	c, d := thirds[vsymChoice("third", len(thirds))], lasts[vsymChoice("last", len(lasts))]
	set := newLabelSet()
	val := ""
	switch kind {
	case 0:
		val = "10.0." + strconv.Itoa(c) + "." + strconv.Itoa(d)
	case 2:
		val = "10.0.0.256"
	case 3:
		val = "2001:db8::1"
	case 4:
		val = "::ffff:10.0.0.9"
	}
	if kind != 1 {
		set.Set("addr", pcommon.NewValueStr(val))
	}
	pats := []struct {
		text   string
		lo, hi int // inclusive bounds of c*256+d
	}{
		{"10.0.0.9", 9, 9},
		{"10.0.0.0/24", 0, 255},
		{"10.0.0.8/29", 8, 15},
		{"10.0.0.1-10.0.0.9", 1, 9},
		{"10.0.0.200-10.0.1.8", 200, 256 + 8},
		{"10.0.0.0/23", 0, 511},
	}
	p := pats[vsymChoice("pattern", len(pats))]
	neg := vsymBool("negated")
	op := logql.OpEq
	if neg {
		op = logql.OpNotEq
	}
	proc, err := buildIPLabelFilter(&logql.IPFilter{Label: "addr", Op: op, Value: p.text})
	vsymAssert(err == nil, "ip label filter builds")
	line := vsymString("line", 1)
	out, keep := proc.Process(1, line, set)
	switch kind {
	case 1:
		vsymAssert(!keep, "a record without the label does not satisfy an ip comparison")
	case 2:
		vsymAssert(keep && out == line && !verifNoErr(set), "a value that is no address keeps the line and flags __error__")
	case 3:
		vsymAssert(keep == neg && verifNoErr(set), "an IPv6 address is outside every IPv4 pattern")
	case 4:
		// an IPv4-mapped IPv6 address: not judged (the library keeps it distinct from the IPv4 address)
		vsymAssert(verifNoErr(set), "a well-formed address raises no error")
	default:
		n := c*256 + d
		inside := p.lo <= n && n <= p.hi
		vsymAssert(keep == (inside != neg), "kept iff the address is inside the pattern (= ip) / outside it (!= ip)")
		vsymAssert(!keep || out == line, "a kept line is unchanged")
		vsymAssert(verifNoErr(set), "a well-formed address raises no error")
	}
	vsymReach("C01_ip_label_filter")
}
