//go:build verif

package logqlengine

import (
	"net/netip"

	"github.com/tdakkota/docker-logql/internal/logql"
	"github.com/tdakkota/docker-logql/internal/logql/logqlengine/logqlpattern"
)

// C17-O1: the IP line filter on arbitrary bytes: no out-of-range access, the
// scan makes progress (every capture is non-empty) and terminates.
func verifC17IPScan(n int) {
	line := vsymString("line", vsymChoice("len", n+1))
	if c, ok := tryCaptureIPv4(line); ok {
		vsymAssert(len(c) >= 1 && len(c) <= len(line), "an IPv4 capture is a non-empty prefix")
	}
	if c, ok := tryCaptureIPv6(line); ok {
		vsymAssert(len(c) >= 1 && len(c) <= len(line), "an IPv6 capture is a non-empty prefix")
	}
	f := &IPLineFilter{matcher: EqualIPMatcher{Value: netip.MustParseAddr("10.0.0.1")}}
	out, _ := f.Process(1, line, newLabelSet())
	vsymAssert(out == line, "the ip filter never changes the line")
	vsymReach("C17_ipscan")
}

func VerifHarness_C17_IPScan_4() { verifC17IPScan(4) }
func VerifHarness_C17_IPScan_5() { verifC17IPScan(5) }

// C17-O2: logqlpattern.Parse on arbitrary bytes, then Match on arbitrary
// bytes: errors, never panics.
func verifC17Pattern(pn, ln int) {
	pat := vsymString("pattern", vsymChoice("plen", pn+1))
	line := vsymString("line", vsymChoice("llen", ln+1))
	p, err := logqlpattern.Parse(pat)
	if err == nil {
		n := 0
		logqlpattern.Match(p, line, func(l logql.Label, v string) { n++ })
		vsymAssert(n <= len(p.Parts), "at most one capture per pattern part")
	}
	vsymReach("C17_pattern")
}

func VerifHarness_C17_Pattern_3x2() { verifC17Pattern(3, 2) }
func VerifHarness_C17_Pattern_4x2() { verifC17Pattern(4, 2) }
