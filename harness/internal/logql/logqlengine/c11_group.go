//go:build verif

package logqlengine

import (
	"go.opentelemetry.io/collector/pdata/pcommon"

	"github.com/tdakkota/docker-logql/internal/iterators"
	"github.com/tdakkota/docker-logql/internal/logql"
	"github.com/tdakkota/docker-logql/internal/logql/logqlengine/logqlmetric"
)

// C11-O1: group membership.  Inputs carry the concrete values 1, 2, 4, ... so
// that the sum reported for a group identifies its member set exactly (floats
// of that size add exactly); labels are symbolic.

type verifLbl map[string]string

func verifMapEq(a, b map[string]string) bool {
	if len(a) != len(b) {
		return false
	}
	ok := true
	for k, v := range a {
		w, has := b[k]
		if !has {
			return false
		}
		ok = vsymAnd(ok, v == w)
	}
	return ok
}

// verifGroupingMatches reports whether `out` is the aggregation of `in` under
// the visible-label function vis: one output per distinct visible label set,
// carrying exactly those labels and the sum of exactly the members' values.
func verifGroupingMatches(in []verifLbl, vals []float64, counts bool, out []logqlmetric.Sample, vis func(verifLbl) verifLbl) bool {
	want := make([]verifLbl, len(in))
	for i := range in {
		want[i] = vis(in[i])
	}
	distinct := 0
	for i := range in {
		first := true
		sum := 0.0
		for j := range in {
			if verifMapEq(want[j], want[i]) { // forks on label equality
				if j < i {
					first = false
				}
				if counts {
					sum++
				} else {
					sum += vals[j]
				}
			}
		}
		if first {
			distinct++
		}
		hits := 0
		for _, o := range out {
			if verifMapEq(o.Set.AsLokiAPI(), want[i]) {
				hits++
				if o.Data != sum {
					return false
				}
			}
		}
		if hits != 1 {
			return false
		}
	}
	return len(out) == distinct
}

func verifC11Group(S int) {
	names := []string{"a", "b"}
	in := make([]verifLbl, S)
	vals := make([]float64, S)
	var samples []logqlmetric.Sample
	for i := 0; i < S; i++ {
		in[i] = verifLbl{}
		set := newLabelSet()
		for _, n := range names {
			if n == "b" && vsymChoice("hasB", 2) == 0 {
				continue
			}
			v := vsymString("val", 1)
			in[i][n] = v
			set.Set(logql.Label(n), pcommon.NewValueStr(v))
		}
		vals[i] = float64(int(1) << uint(i))
		samples = append(samples, logqlmetric.Sample{Data: vals[i], Set: newAggregatedLabels(set, nil, nil)})
	}
	// grouping clause: 0 none, 1 by(L), 2 without(L); L any subset of {a, b, c}
	mode := vsymChoice("grouping", 3)
	var L []logql.Label
	inL := map[string]bool{}
	if mode != 0 {
		for _, n := range []string{"a", "b", "c"} {
			if vsymChoice("inL", 2) == 1 {
				L = append(L, logql.Label(n))
				inL[n] = true
			}
		}
	}
	counts := vsymChoice("op", 2) == 1
	expr := &logql.VectorAggregationExpr{Op: logql.VectorOpSum}
	if counts {
		expr.Op = logql.VectorOpCount
	}
	if mode != 0 {
		expr.Grouping = &logql.Grouping{Labels: L, Without: mode == 2}
	}
	it, err := logqlmetric.VectorAggregation(iterators.Slice([]logqlmetric.Step{{Timestamp: 5, Samples: samples}}), expr)
	vsymAssert(err == nil, "vector aggregation builds")
	var st logqlmetric.Step
	vsymAssert(it.Next(&st), "one input step gives one output step")
	vsymAssert(st.Timestamp == 5, "the step keeps its timestamp")

	spec := func(l verifLbl) verifLbl { // A.6 visible()
		r := verifLbl{}
		for k, v := range l {
			switch mode {
			case 1:
				if inL[k] {
					r[k] = v
				}
			case 2:
				if !inL[k] {
					r[k] = v
				}
			}
		}
		return r
	}
	identity := func(l verifLbl) verifLbl { return l }
	specOK := verifGroupingMatches(in, vals, counts, st.Samples, spec)
	switch {
	case mode == 0:
		idOK := verifGroupingMatches(in, vals, counts, st.Samples, identity)
		vsymFinding("F8a", !specOK && idOK, "an aggregation without grouping clause does not merge its input series (it behaves like `without ()`)")
		vsymAssert(specOK || idOK, "no grouping clause: one group with the empty label set")
	case mode == 1 && len(L) == 0:
		idOK := verifGroupingMatches(in, vals, counts, st.Samples, identity)
		vsymFinding("F8b", !specOK && idOK, "`by ()` keeps every label instead of none")
		vsymAssert(specOK || idOK, "by (): one group with the empty label set")
	default:
		vsymAssert(specOK, "one output per distinct retained-label combination, aggregating exactly its members")
	}
	var st2 logqlmetric.Step
	vsymAssert(!it.Next(&st2), "no further steps")
	vsymReach("C11_group")
}

func VerifHarness_C11_Group_2() { verifC11Group(2) }
func VerifHarness_C11_Group_3() { verifC11Group(3) }

// C11-O4: nested grouping on the label view (depth 2 and 3): the labels
// visible after inner-then-outer grouping are those an outer aggregation over
// the inner result would see.
func verifC11Nesting(depth int) {
	names := []string{"a", "b", "c"}
	set := newLabelSet()
	vals := map[string]string{}
	for _, n := range names {
		v := vsymString("val", 1)
		vals[n] = v
		set.Set(logql.Label(n), pcommon.NewValueStr(v))
	}
	var al logqlmetric.AggregatedLabels = newAggregatedLabels(set, nil, nil)
	type clause struct {
		without bool
		in      map[string]bool
	}
	var cs []clause
	for d := 0; d < depth; d++ {
		c := clause{without: vsymChoice("without", 2) == 1, in: map[string]bool{}}
		var L []logql.Label
		for _, n := range names {
			if vsymChoice("inL", 2) == 1 {
				c.in[n] = true
				L = append(L, logql.Label(n))
			}
		}
		if len(L) == 0 {
			// empty lists are judged by O1 (F8b)
			vsymAssume(false)
		}
		if c.without {
			al = al.Without(L...)
		} else {
			al = al.By(L...)
		}
		cs = append(cs, c)
	}
	got := al.AsLokiAPI()
	// specification: sequential composition
	spec := map[string]string{}
	// model of the known behaviour F8c: union of all by-lists, union of all without-lists
	union := map[string]string{}
	anyBy := false
	for _, c := range cs {
		if !c.without {
			anyBy = true
		}
	}
	for _, n := range names {
		vis := true
		inBy, inWithout := false, false
		for _, c := range cs {
			if c.without {
				if c.in[n] {
					vis = false
					inWithout = true
				}
			} else {
				if !c.in[n] {
					vis = false
				} else {
					inBy = true
				}
			}
		}
		if vis {
			spec[n] = vals[n]
		}
		if (!anyBy || inBy) && !inWithout {
			union[n] = vals[n]
		}
	}
	specOK := verifMapEq(got, spec)
	unionOK := verifMapEq(got, union)
	vsymFinding("F8c", !specOK && unionOK, "nested `by` clauses take the union of their label lists: labels removed by an inner aggregation reappear")
	vsymAssert(specOK || unionOK, "nested grouping composes: removed labels cannot reappear")
	// the key depends only on the visible pairs
	k1 := al.Key()
	set2 := newLabelSet()
	for n, v := range got {
		set2.Set(logql.Label(n), pcommon.NewValueStr(v))
	}
	k2 := newAggregatedLabels(set2, nil, nil).Key()
	vsymAssert(k1 == k2, "the grouping key is a function of the visible label pairs only")
	vsymReach("C11_nesting")
}

func VerifHarness_C11_Nesting_2() { verifC11Nesting(2) }
func VerifHarness_C11_Nesting_3() { verifC11Nesting(3) }
