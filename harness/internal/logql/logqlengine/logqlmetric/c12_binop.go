//go:build verif

package logqlmetric

import (
	"math"
	"strconv"
	"time"

	"github.com/tdakkota/docker-logql/internal/iterators"
	"github.com/tdakkota/docker-logql/internal/logql"
)

var verifArithOps = []logql.BinOp{
	logql.OpAdd, logql.OpSub, logql.OpMul, logql.OpDiv, logql.OpMod, logql.OpPow,
	logql.OpEq, logql.OpNotEq, logql.OpGt, logql.OpGte, logql.OpLt, logql.OpLte,
}

// verifRefBinOp: A.7.  Returns (value, isComparison, holds).
func verifRefBinOp(op logql.BinOp, l, r float64) (float64, bool, bool) {
	switch op {
	case logql.OpAdd:
		return l + r, false, false
	case logql.OpSub:
		return l - r, false, false
	case logql.OpMul:
		return l * r, false, false
	case logql.OpDiv:
		if r == 0 {
			return math.NaN(), false, false
		}
		return l / r, false, false
	case logql.OpMod:
		if r == 0 {
			return math.NaN(), false, false
		}
		return math.Mod(l, r), false, false
	case logql.OpPow:
		return math.Pow(l, r), false, false
	case logql.OpEq:
		return 0, true, l == r
	case logql.OpNotEq:
		return 0, true, l != r
	case logql.OpGt:
		return 0, true, l > r
	case logql.OpGte:
		return 0, true, l >= r
	case logql.OpLt:
		return 0, true, l < r
	case logql.OpLte:
		return 0, true, l <= r
	}
	return 0, false, false
}

func verifCheckBinOpResult(op logql.BinOp, l, r float64, got float64, keep bool) {
	want, isCmp, holds := verifRefBinOp(op, l, r)
	if !isCmp {
		vsymAssert(keep, "arithmetic never drops a series")
		vsymAssert(vsymSameFloat(got, want), "arithmetic: left operand op right operand (x/0 and x%0 give NaN)")
		return
	}
	if holds {
		vsymAssert(keep && got == 1, "a comparison that holds yields 1")
	} else {
		vsymAssert(!keep || got == 0, "a comparison that does not hold yields 0 or drops the series, never 1")
	}
}

// C12-O1: buildSampleBinOp for every operator, symbolic operands.
func VerifHarness_C12_SampleOp() {
	op := logql.BinOp(vsymInt("op"))
	isOp := false
	for _, o := range verifArithOps {
		isOp = vsymOr(isOp, op == o)
	}
	vsymAssume(isOp)
	l, r := vsymFloat64("l"), vsymFloat64("r")
	expr := &logql.BinOpExpr{Op: op}
	expr.Modifier.ReturnBool = vsymBool("bool")
	f, err := buildSampleBinOp(expr)
	vsymAssert(err == nil, "every arithmetic/comparison operator builds")
	ls := &verifSeries{key: 1, name: "L"}
	res, keep := f(Sample{Data: l, Set: ls}, Sample{Data: r, Set: &verifSeries{key: 1, name: "R"}})
	if _, isCmp, holds := verifRefBinOp(op, l, r); isCmp && !holds && !keep {
		// one series per input series: a comparison that does not hold yields 0
		if expr.Modifier.ReturnBool {
			vsymFinding("F29", true, "with the `bool` modifier a comparison drops the series for which it does not hold instead of yielding 0 (without `bool` every series is kept with 0/1): the flag that asks for a 0/1 answer switches filtering on")
			return
		}
		vsymAssert(false, "a comparison yields one series per input series (0 where it does not hold)")
	}
	verifCheckBinOpResult(op, l, r, res.Data, keep)
	if keep {
		vsymAssert(res.Set == AggregatedLabels(ls), "the result carries the left operand's labels")
	}
	vsymReach("C12_sampleop")
}

// C12-O2: a scalar literal stays on the side it was written, through build.
func VerifHarness_C12_LiteralSide() {
	op := verifArithOps[vsymChoice("op", len(verifArithOps))]
	lit, v := vsymFloat64("lit"), vsymFloat64("v")
	litLeft := vsymBool("literalLeft")
	var expr *logql.BinOpExpr
	if litLeft {
		expr = &logql.BinOpExpr{Left: &logql.LiteralExpr{Value: lit}, Op: op, Right: &logql.VectorExpr{Value: v}}
	} else {
		expr = &logql.BinOpExpr{Left: &logql.VectorExpr{Value: v}, Op: op, Right: &logql.LiteralExpr{Value: lit}}
	}
	t0 := time.Unix(1700000000, 0)
	steps := 1 + vsymChoice("steps", 2)
	it, err := build(expr, nil, EvalParams{Start: t0, End: t0.Add(time.Duration(steps-1) * time.Second), Step: time.Second})
	vsymAssert(err == nil, "literal op vector builds")
	n := 0
	var st Step
	for it.Next(&st) {
		vsymAssert(int64(st.Timestamp) == t0.Add(time.Duration(n)*time.Second).UnixNano(), "steps stay aligned with the grid")
		l, r := v, lit
		if litLeft {
			l, r = lit, v
		}
		_, isCmp, holds := verifRefBinOp(op, l, r)
		if len(st.Samples) == 0 {
			vsymAssert(isCmp && !holds, "a series disappears only through a comparison that does not hold")
		} else {
			vsymAssert(len(st.Samples) == 1, "one output series per input series")
			verifCheckBinOpResult(op, l, r, st.Samples[0].Data, true)
			vsymAssert(len(st.Samples[0].Set.AsLokiAPI()) == 0, "the series keeps its (empty) label set")
		}
		n++
	}
	vsymAssert(n == steps, "one output step per input step")
	vsymReach("C12_literal")
}

func verifSide(tag string, n int) ([]Sample, []float64, []uint64) {
	var ss []Sample
	vals := make([]float64, n)
	keys := make([]uint64, n)
	for i := 0; i < n; i++ {
		vals[i] = vsymFloat64(tag + "v")
		keys[i] = vsymUint64(tag + "key")
		for j := 0; j < i; j++ {
			vsymAssume(keys[j] != keys[i]) // series within one vector are distinct (C10)
		}
		ss = append(ss, Sample{Data: vals[i], Set: &verifSeries{key: keys[i], name: tag + strconv.Itoa(i)}})
	}
	return ss, vals, keys
}

// C12-O3: vector op vector joins on equal label sets, left operand first.
func verifC12Join(maxN int) {
	op := []logql.BinOp{logql.OpSub, logql.OpDiv, logql.OpGt}[vsymChoice("op", 3)]
	ls, lv, lk := verifSide("L", vsymChoice("nl", maxN+1))
	rs, rv, rk := verifSide("R", vsymChoice("nr", maxN+1))
	it, err := BinOp(iterators.Slice([]Step{{Timestamp: 11, Samples: ls}}), iterators.Slice([]Step{{Timestamp: 11, Samples: rs}}), &logql.BinOpExpr{Op: op})
	vsymAssert(err == nil, "vector op vector builds")
	var st Step
	vsymAssert(it.Next(&st), "one step out")
	vsymAssert(st.Timestamp == 11, "the step keeps the left timestamp")
	used := make([]int, len(ls))
	for _, o := range st.Samples {
		name := o.Set.AsLokiAPI()["series"]
		li := -1
		for i := range ls {
			if name == "L"+strconv.Itoa(i) {
				li = i
			}
		}
		vsymAssert(li >= 0, "outputs carry the labels of a left series")
		used[li]++
		vsymAssert(used[li] == 1, "one output per matching series")
		rj := -1
		for j := range rs {
			if rk[j] == lk[li] {
				rj = j
			}
		}
		vsymAssert(rj >= 0, "an output exists only for label sets present on both sides")
		verifCheckBinOpResult(op, lv[li], rv[rj], o.Data, true)
	}
	for i := range ls {
		for j := range rs {
			if lk[i] == rk[j] && used[i] == 0 {
				_, isCmp, holds := verifRefBinOp(op, lv[i], rv[j])
				vsymAssert(isCmp && !holds, "a matching pair is missing only when a comparison does not hold")
			}
		}
	}
	vsymReach("C12_join")
}

func VerifHarness_C12_Join_1() { verifC12Join(1) }
func VerifHarness_C12_Join_2() { verifC12Join(2) }

// C12-O4: and / or / unless = intersection / union (left wins) / difference
// by label set, including empty sides.
func verifC12Set(maxN int) {
	op := []logql.BinOp{logql.OpAnd, logql.OpOr, logql.OpUnless}[vsymChoice("op", 3)]
	ls, _, lk := verifSide("L", vsymChoice("nl", maxN+1))
	rs, _, rk := verifSide("R", vsymChoice("nr", maxN+1))
	it, err := BinOp(iterators.Slice([]Step{{Timestamp: 11, Samples: ls}}), iterators.Slice([]Step{{Timestamp: 11, Samples: rs}}), &logql.BinOpExpr{Op: op})
	vsymAssert(err == nil, "set operator builds")
	var st Step
	vsymAssert(it.Next(&st), "one step out")
	inR := func(k uint64) bool {
		for _, x := range rk {
			if x == k {
				return true
			}
		}
		return false
	}
	inL := func(k uint64) bool {
		for _, x := range lk {
			if x == k {
				return true
			}
		}
		return false
	}
	var want []string
	for i := range ls {
		switch op {
		case logql.OpAnd:
			if inR(lk[i]) {
				want = append(want, "L"+strconv.Itoa(i))
			}
		case logql.OpOr:
			want = append(want, "L"+strconv.Itoa(i))
		default:
			if !inR(lk[i]) {
				want = append(want, "L"+strconv.Itoa(i))
			}
		}
	}
	if op == logql.OpOr {
		for j := range rs {
			if !inL(rk[j]) {
				want = append(want, "R"+strconv.Itoa(j))
			}
		}
	}
	vsymAssert(len(st.Samples) == len(want), "and/or/unless: intersection / union / difference by label set")
	for _, w := range want {
		n := 0
		for _, o := range st.Samples {
			if o.Set.AsLokiAPI()["series"] == w {
				n++
			}
		}
		vsymAssert(n == 1, "every expected series appears exactly once (left side wins for `or`)")
	}
	vsymReach("C12_set")
}

func VerifHarness_C12_Set_2() { verifC12Set(2) }
func VerifHarness_C12_Set_3() { verifC12Set(3) }

// C12-O3b: vector op vector over several steps of a range query: every step
// joins only the series present on both sides AT THAT STEP (nothing is carried
// over from an earlier step), and set operators likewise.
func verifC12Steps(steps, maxN int) {
	kind := vsymChoice("op", 4)
	op := []logql.BinOp{logql.OpSub, logql.OpAnd, logql.OpOr, logql.OpUnless}[kind]
	type side struct {
		ss   []Sample
		vals []float64
		keys []uint64
	}
	var L, R []side
	var lsteps, rsteps []Step
	for s := 0; s < steps; s++ {
		ls, lv, lk := verifSide("L", vsymChoice("nl", maxN+1))
		rs, rv, rk := verifSide("R", vsymChoice("nr", maxN+1))
		L = append(L, side{ls, lv, lk})
		R = append(R, side{rs, rv, rk})
		lsteps = append(lsteps, Step{Timestamp: otelstorageTS(100 + s), Samples: ls})
		rsteps = append(rsteps, Step{Timestamp: otelstorageTS(100 + s), Samples: rs})
	}
	it, err := BinOp(iterators.Slice(lsteps), iterators.Slice(rsteps), &logql.BinOpExpr{Op: op})
	vsymAssert(err == nil, "binary operation builds")
	for s := 0; s < steps; s++ {
		var st Step
		vsymAssert(it.Next(&st), "one output step per input step")
		vsymAssert(st.Timestamp == otelstorageTS(100+s), "steps stay aligned")
		l, r := L[s], R[s]
		has := func(keys []uint64, k uint64) int {
			for j, x := range keys {
				if x == k {
					return j
				}
			}
			return -1
		}
		want := 0
		for i := range l.ss {
			j := has(r.keys, l.keys[i])
			switch kind {
			case 0:
				if j >= 0 {
					want++
				}
			case 1:
				if j >= 0 {
					want++
				}
			case 2:
				want++
			default:
				if j < 0 {
					want++
				}
			}
		}
		if kind == 2 {
			for j := range r.ss {
				if has(l.keys, r.keys[j]) < 0 {
					want++
				}
			}
		}
		vsymAssert(len(st.Samples) == want, "a step holds exactly the series the operator yields for THIS step's operands")
		if kind == 0 {
			for _, o := range st.Samples {
				i := has(l.keys, o.Set.Key())
				vsymAssert(i >= 0, "outputs carry the labels of a left series of this step")
				j := has(r.keys, o.Set.Key())
				vsymAssert(j >= 0, "an output exists only for label sets present on both sides at this step")
				vsymAssert(vsymSameFloat(o.Data, l.vals[i]-r.vals[j]), "the value combines this step's left and right values")
			}
		}
	}
	var extra Step
	vsymAssert(!it.Next(&extra), "no step beyond the input")
	vsymReach("C12_steps")
}

func VerifHarness_C12_Steps_2x1() { verifC12Steps(2, 1) }
func VerifHarness_C12_Steps_2x2() { verifC12Steps(2, 2) }
func VerifHarness_C12_Steps_3x1() { verifC12Steps(3, 1) }

// C13-O2: evaluation follows the structure of the expression.  A tree of two
// arithmetic operators over the operands 10, 3, 2 (values for which every
// regrouping changes the result), grouped to the left or to the right, with
// the second and third operand written as vector(n) or as a literal, is built
// by the real build() and evaluated; the value must be the one obtained by
// evaluating the tree bottom-up.
func VerifHarness_C13_EvalChain() {
	ops := []logql.BinOp{logql.OpAdd, logql.OpSub, logql.OpMul, logql.OpDiv, logql.OpMod, logql.OpPow}
	op1 := ops[vsymChoice("op", len(ops))]
	op2 := ops[vsymChoice("op", len(ops))]
	operand := func(v float64, lit bool) logql.Expr {
		if lit {
			return &logql.LiteralExpr{Value: v}
		}
		return &logql.VectorExpr{Value: v}
	}
	bLit, cLit := vsymBool("secondIsLiteral"), vsymBool("thirdIsLiteral")
	a, b, c := operand(10, false), operand(3, bLit), operand(2, cLit)
	paren := vsymBool("parenthesised")
	wrap := func(e logql.Expr) logql.Expr {
		if paren {
			return &logql.ParenExpr{X: e}
		}
		return e
	}
	var expr logql.Expr
	var want float64
	leftNested := vsymBool("leftNested")
	if leftNested {
		expr = &logql.BinOpExpr{Left: wrap(&logql.BinOpExpr{Left: a, Op: op1, Right: b}), Op: op2, Right: c}
		inner, _, _ := verifRefBinOp(op1, 10, 3)
		want, _, _ = verifRefBinOp(op2, inner, 2)
	} else {
		if bLit && cLit {
			// a constant subtree is folded by the parser (ReduceBinOp), not by build
			vsymAssume(false)
		}
		expr = &logql.BinOpExpr{Left: a, Op: op1, Right: wrap(&logql.BinOpExpr{Left: b, Op: op2, Right: c})}
		inner, _, _ := verifRefBinOp(op2, 3, 2)
		want, _, _ = verifRefBinOp(op1, 10, inner)
	}
	t0 := time.Unix(1700000000, 0)
	it, err := build(expr, nil, EvalParams{Start: t0, End: t0.Add(time.Second), Step: time.Second})
	vsymAssert(err == nil, "a chain of arithmetic operators over vectors and literals builds")
	n := 0
	var st Step
	for it.Next(&st) {
		vsymAssert(len(st.Samples) == 1, "arithmetic over vector(n) yields one series")
		vsymAssert(vsymSameFloat(st.Samples[0].Data, want), "the value is the one the structure of the expression denotes (parentheses and grouping are kept)")
		n++
	}
	vsymAssert(n == 2 && it.Err() == nil, "one value per step")
	vsymReach("C13_eval_chain")
}

// C13-O3: scalar operands in odd places, from query text: a scalar leading the
// right operand of a set operator (`v and 2 * w` reads `v and (2 * w)`), and a
// scalar in redundant parentheses (`(2) * v`).
func VerifHarness_C13_ScalarOperands() {
	cases := []struct {
		q     string
		want  float64
		empty bool
		id    string
	}{
		{"vector(1) and 2 * vector(3)", 1, false, "F31"},
		{"vector(1) or 2 * vector(3)", 1, false, "F31"},
		{"vector(1) unless 2 * vector(3)", 0, true, "F31"},
		{"vector(5) and 2 > vector(3)", 5, false, "F31"},
		{"2 * vector(3) and vector(1)", 6, false, ""},
		{"(2) * vector(3)", 6, false, "F32"},
		{"vector(3) * (2)", 6, false, "F32"},
		{"vector(3) - ((2))", 1, false, "F32"},
		{"2 * vector(3)", 6, false, ""},
	}
	c := cases[vsymChoice("query", len(cases))]
	expr, err := logql.Parse(c.q, logql.ParseOptions{})
	if err != nil && c.id == "F31" {
		vsymFinding("F31", true, "a set operator rejects a right operand that starts with a scalar (`vector(1) and 2 * vector(3)`): the no-scalar-operand rule is applied to the first primary of the right side, before the tighter-binding operators are attached to it")
		return
	}
	vsymAssert(err == nil, "the query parses")
	t0 := time.Unix(1700000000, 0)
	it, err := build(expr, nil, EvalParams{Start: t0, End: t0, Step: time.Second})
	if err != nil && c.id == "F32" {
		vsymFinding("F32", true, "a scalar in redundant parentheses is not recognised as a scalar operand: `(2) * vector(3)` fails with `expression *logql.ParenExpr is not supported yet`")
		return
	}
	vsymAssert(err == nil, "the query builds")
	var st Step
	vsymAssert(it.Next(&st), "one step")
	if c.empty {
		vsymAssert(len(st.Samples) == 0, "the conventional reading yields nothing")
	} else {
		vsymAssert(len(st.Samples) == 1 && st.Samples[0].Data == c.want, "the value is the one of the conventional reading")
	}
	vsymReach("C13_scalar_operands")
}

// C12-O3c: a vector(n) operand is a VECTOR (one series with the empty label
// set), not a scalar: through the real build(), `count_over_time(...) op
// vector(3)` (either side) yields a series only when the range aggregation's
// series has the very label set of the vector's series; the key of the other
// series is symbolic.
func VerifHarness_C12_VectorOperandJoin() {
	ops := []logql.BinOp{logql.OpAdd, logql.OpSub, logql.OpMul, logql.OpDiv}
	op := ops[vsymChoice("op", len(ops))]
	vecLeft := vsymBool("vectorOnTheLeft")
	k := vsymUint64("key")
	one := &verifSeries{key: k, name: "s"}
	t0 := time.Unix(1700000000, 0)
	in := []SampledEntry{
		{Sample: 1, Timestamp: otelstorageTS(int(t0.UnixNano()) - 5), Set: one},
		{Sample: 1, Timestamp: otelstorageTS(int(t0.UnixNano()) - 3), Set: one},
	}
	ra := &logql.RangeAggregationExpr{Op: logql.RangeOpCount}
	ra.Range.Range = time.Minute
	vec := &logql.VectorExpr{Value: 3}
	sel := func(e *logql.RangeAggregationExpr, s, en time.Time) (iterators.Iterator[SampledEntry], error) {
		return iterators.Slice(in), nil
	}
	params := EvalParams{Start: t0, End: t0, Step: time.Second}
	vit, err := build(vec, nil, params)
	vsymAssert(err == nil, "vector(n) builds")
	var vst Step
	vsymAssert(vit.Next(&vst) && len(vst.Samples) == 1, "vector(n) is one series")
	vk := vst.Samples[0].Set.Key()
	var expr logql.Expr = &logql.BinOpExpr{Left: ra, Op: op, Right: vec}
	l, r := 2.0, 3.0
	if vecLeft {
		expr = &logql.BinOpExpr{Left: vec, Op: op, Right: ra}
		l, r = 3.0, 2.0
	}
	it, err := build(expr, sel, params)
	vsymAssert(err == nil, "range aggregation op vector(n) builds")
	var st Step
	vsymAssert(it.Next(&st), "one step out")
	if k == vk {
		want, _, _ := verifRefBinOp(op, l, r)
		vsymAssert(len(st.Samples) == 1 && vsymSameFloat(st.Samples[0].Data, want), "equal label sets are joined and combined")
	} else {
		vsymAssert(len(st.Samples) == 0, "a series whose label set differs from the vector's (empty) label set has no partner: vector(n) is joined on label sets like any other vector")
	}
	vsymReach("C12_vector_operand_join")
}
