//go:build verif

package logqlmetric

import (
	"strconv"

	"github.com/tdakkota/docker-logql/internal/iterators"
)

// C10-O4 / C18-O2: ReadStepResponse (matrix): one series per distinct key,
// points appended in step order, none lost, whatever the map iteration order.
func verifC10Response(steps, maxN int) {
	type pt struct {
		key  uint64
		val  float64
		step int
	}
	var all []pt
	var in []Step
	v := 1.0
	for s := 0; s < steps; s++ {
		n := vsymChoice("n", maxN+1)
		var ss []Sample
		var keys []uint64
		for i := 0; i < n; i++ {
			k := vsymUint64("key")
			for _, o := range keys {
				vsymAssume(o != k) // a step never holds two samples of one series (C10/C11)
			}
			keys = append(keys, k)
			ss = append(ss, Sample{Data: v, Set: &verifSeries{key: k, name: "k" + strconv.Itoa(len(all))}})
			all = append(all, pt{k, v, s})
			v++
		}
		in = append(in, Step{Timestamp: otelstorageTS((s + 1) * 1000000000), Samples: ss})
	}
	vsymMapOrderAll()
	data, err := ReadStepResponse(iterators.Slice(in), false)
	vsymMapOrderDefault()
	vsymAssert(err == nil, "reading a step response succeeds")
	m, ok := data.GetMatrixResult()
	vsymAssert(ok, "a range query yields a matrix")
	total := 0
	for _, ser := range m.Result {
		total += len(ser.Values)
		for i := 0; i+1 < len(ser.Values); i++ {
			vsymAssert(ser.Values[i].T < ser.Values[i+1].T, "[maporder] points of a series are in step order")
		}
	}
	vsymAssert(total == len(all), "[maporder] no point is lost or duplicated")
	// distinct keys
	distinct := 0
	for i, p := range all {
		first := true
		for j := 0; j < i; j++ {
			if all[j].key == p.key {
				first = false
			}
		}
		if first {
			distinct++
		}
	}
	vsymAssert(len(m.Result) == distinct, "[maporder] one series per distinct label set")
	for _, p := range all {
		want := strconv.FormatFloat(p.val, 'f', -1, 64)
		hits := 0
		for _, ser := range m.Result {
			for _, fp := range ser.Values {
				if fp.V == want {
					hits++
					vsymAssert(fp.T == float64(p.step+1), "[maporder] a point keeps the timestamp of its step")
				}
			}
		}
		vsymAssert(hits == 1, "[maporder] every sample becomes exactly one point")
	}
	// samples with equal keys share a series, different keys never do
	for i, p := range all {
		for j := 0; j < i; j++ {
			q := all[j]
			si, sj := -1, -1
			for k, ser := range m.Result {
				for _, fp := range ser.Values {
					if fp.V == strconv.FormatFloat(p.val, 'f', -1, 64) {
						si = k
					}
					if fp.V == strconv.FormatFloat(q.val, 'f', -1, 64) {
						sj = k
					}
				}
			}
			vsymAssert((si == sj) == (p.key == q.key), "[maporder] equal label sets share a series, different ones never do")
		}
	}
	vsymReach("C10_response")
}

func VerifHarness_C10_Response_MapOrder_2x2() { verifC10Response(2, 2) }
func VerifHarness_C10_Response_MapOrder_3x2() { verifC10Response(3, 2) }
