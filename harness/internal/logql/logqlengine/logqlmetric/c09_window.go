//go:build verif

package logqlmetric

import (
	"github.com/tdakkota/docker-logql/internal/logql"
	"regexp"
	"time"

	"github.com/tdakkota/docker-logql/internal/iterators"
	"github.com/tdakkota/docker-logql/internal/lokiapi"
	"github.com/tdakkota/docker-logql/internal/otelstorage"
)

// recording BatchAggregator: the oracle looks at what the window contained,
// so the obligation holds for every range function at once.
type verifRecAgg struct{ got *[][]FPoint }

func (a verifRecAgg) Aggregate(p []FPoint) float64 {
	*a.got = append(*a.got, append([]FPoint(nil), p...))
	return float64(len(*a.got))
}

// AggregatedLabels stub with a fixed (possibly symbolic) key.
type verifSeries struct {
	key  uint64
	name string
}

func (s *verifSeries) By(...logql.Label) AggregatedLabels      { return s }
func (s *verifSeries) Without(...logql.Label) AggregatedLabels { return s }
func (s *verifSeries) Key() GroupingKey                        { return s.key }
func (s *verifSeries) Replace(_, _, _ string, _ *regexp.Regexp) AggregatedLabels {
	return s
}
func (s *verifSeries) AsLokiAPI() lokiapi.LabelSet { return lokiapi.LabelSet{"series": s.name} }

const (
	verifMaxInstant = int64(1) << 60
	verifMaxSpan    = int64(1) << 50
)

// C09-O1 window exactness (A.5): at every grid point T = start + k*step <= end
// the aggregator receives exactly the samples with T-r <= ts <= T, in input
// order; an empty window reports nothing; the step is stamped T.
func verifC09Window(N int, S int64) {
	start, step, rng := vsymInt64("start"), vsymInt64("step"), vsymInt64("range")
	vsymAssume(start >= 0)
	vsymAssume(start < verifMaxInstant)
	vsymAssume(step > 0)
	vsymAssume(step < verifMaxSpan)
	vsymAssume(rng > 0)
	vsymAssume(rng < verifMaxSpan)
	end := vsymInt64("end")
	vsymAssume(start <= end)
	vsymAssume(end < start+S*step) // at most S steps
	one := &verifSeries{key: 7, name: "s"}
	var in []SampledEntry
	prev := int64(0)
	for i := 0; i < N; i++ {
		ts := vsymInt64("ts")
		vsymAssume(prev <= ts) // time-ordered input, ties allowed
		vsymAssume(ts < verifMaxInstant+verifMaxSpan)
		prev = ts
		in = append(in, SampledEntry{Sample: float64(i + 1), Timestamp: otelstorage.Timestamp(ts), Set: one})
	}
	var wins [][]FPoint
	it := &rangeAggIterator{
		iter:     iterators.Slice(in),
		agg:      verifRecAgg{&wins},
		stepper:  newStepper(time.Unix(0, start), time.Unix(0, end), time.Duration(step)),
		grouper:  nopGrouper,
		window:   map[GroupingKey]Series{},
		interval: time.Duration(rng),
	}
	var st Step
	k, w := int64(0), 0
	for it.Next(&st) {
		vsymAssert(k < S, "no more steps than grid points")
		T := start + k*step
		vsymAssert(int64(st.Timestamp) == T, "step is stamped with T = start + k*step")
		want := 0
		for _, e := range in {
			if T-rng <= int64(e.Timestamp) && int64(e.Timestamp) <= T {
				want++
			}
		}
		if want == 0 {
			vsymAssert(len(st.Samples) == 0, "a series with no sample in [T-r, T] reports nothing at T")
		} else {
			vsymAssert(len(st.Samples) == 1 && w < len(wins) && len(wins[w]) == want, "the window holds exactly the samples with T-r <= ts <= T")
			j := 0
			for _, e := range in {
				if T-rng <= int64(e.Timestamp) && int64(e.Timestamp) <= T {
					vsymAssert(wins[w][j].Value == e.Sample && wins[w][j].Timestamp == e.Timestamp, "window members are the in-range samples in input order")
					j++
				}
			}
			vsymAssert(st.Samples[0].Data == float64(w+1) && st.Samples[0].Set.Key() == 7, "the reported value is the aggregate of this window")
			w++
		}
		k++
	}
	vsymAssert(start+k*step > end && (k == 0 || start+(k-1)*step <= end), "steps are exactly the grid points start + k*step <= end")
	vsymReach("C09_window")
}

func VerifHarness_C09_Window_2x2() { verifC09Window(2, 2) }
func VerifHarness_C09_Window_3x2() { verifC09Window(3, 2) }
func VerifHarness_C09_Window_3x3() { verifC09Window(3, 3) }
func VerifHarness_C09_Window_4x3() { verifC09Window(4, 3) }

// C09-O1b: the same sliding-window run with the REAL aggregators: whatever
// an aggregator does with the slice it is handed (quantile sorts it), the
// value at T must equal that function applied to exactly the samples in
// [T-r, T].  Sample values are concrete and not monotonic; times symbolic.
func verifC09RealAgg(N int, S int64, allOps bool) {
	start, step, rng := vsymInt64("start"), vsymInt64("step"), vsymInt64("range")
	vsymAssume(start >= 0)
	vsymAssume(start < verifMaxInstant)
	vsymAssume(step > 0)
	vsymAssume(step < verifMaxSpan)
	vsymAssume(rng > 0)
	vsymAssume(rng < verifMaxSpan)
	end := vsymInt64("end")
	vsymAssume(start <= end)
	vsymAssume(end < start+S*step)
	ops := []logql.RangeOp{logql.RangeOpQuantile, logql.RangeOpMax, logql.RangeOpMin, logql.RangeOpFirst, logql.RangeOpLast,
		logql.RangeOpSum, logql.RangeOpAvg, logql.RangeOpCount, logql.RangeOpStddev, logql.RangeOpStdvar}
	if !allOps {
		ops = ops[:4]
	}
	op := ops[vsymChoice("op", len(ops))]
	q := 0.5
	if op == logql.RangeOpQuantile {
		q = []float64{0.5, 1, 0}[vsymChoice("q", 3)]
	}
	expr := &logql.RangeAggregationExpr{Op: op, Parameter: &q}
	expr.Range.Range = time.Duration(rng)
	expr.Range.Unwrap = &logql.UnwrapExpr{Label: "v"}
	mk := func() BatchAggregator {
		a, err := buildBatchAggregator(expr)
		vsymAssert(err == nil, "aggregator builds")
		return a
	}
	values := []float64{9, 5, 1, 7}
	one := &verifSeries{key: 7, name: "s"}
	var in []SampledEntry
	prev := int64(0)
	for i := 0; i < N; i++ {
		ts := vsymInt64("ts")
		vsymAssume(prev <= ts)
		vsymAssume(ts < verifMaxInstant+verifMaxSpan)
		prev = ts
		in = append(in, SampledEntry{Sample: values[i%len(values)], Timestamp: otelstorage.Timestamp(ts), Set: one})
	}
	it := &rangeAggIterator{
		iter:     iterators.Slice(in),
		agg:      mk(),
		stepper:  newStepper(time.Unix(0, start), time.Unix(0, end), time.Duration(step)),
		grouper:  nopGrouper,
		window:   map[GroupingKey]Series{},
		interval: time.Duration(rng),
	}
	var st Step
	k := int64(0)
	for it.Next(&st) {
		vsymAssert(k < S, "no more steps than grid points")
		T := start + k*step
		var win []FPoint
		for _, e := range in {
			if T-rng <= int64(e.Timestamp) && int64(e.Timestamp) <= T {
				win = append(win, FPoint{Timestamp: e.Timestamp, Value: e.Sample})
			}
		}
		if len(win) == 0 {
			vsymAssert(len(st.Samples) == 0, "an empty window reports nothing")
		} else {
			want := mk().Aggregate(win) // the same function on a fresh copy of exactly the window
			vsymAssert(len(st.Samples) == 1 && vsymSameFloat(st.Samples[0].Data, want), "the value at T is the range function over exactly [T-r, T], whatever was evaluated before")
		}
		k++
	}
	vsymReach("C09_realagg")
}

func VerifHarness_C09_RealAgg_3x2() { verifC09RealAgg(3, 2, false) }
func VerifHarness_C09_RealAgg_3x3() { verifC09RealAgg(3, 3, true) }

func otelstorageTS(n int) otelstorage.Timestamp { return otelstorage.Timestamp(n) }
