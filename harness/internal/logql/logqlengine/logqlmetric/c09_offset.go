//go:build verif

package logqlmetric

import (
	"time"

	"github.com/tdakkota/docker-logql/internal/iterators"
	"github.com/tdakkota/docker-logql/internal/logql"
	"github.com/tdakkota/docker-logql/internal/otelstorage"
)

// C09-O2: offset and fetch interval through the real build(): the selector is
// asked for [start-o-r, end-o]; the value at T covers [T-o-r, T-o]; the step is
// stamped T.
func verifC09Offset(N int, S int64, stepPool bool) {
	start, step, rng, off := vsymInt64("start"), vsymInt64("step"), vsymInt64("range"), vsymInt64("offset")
	if stepPool {
		// a concrete step, so that code rounding instants to the step is followed precisely
		step = []int64{7, 1e9, 60e9}[vsymChoice("stepPool", 3)]
	}
	vsymAssume(start >= 0)
	vsymAssume(start < verifMaxInstant)
	vsymAssume(step > 0)
	vsymAssume(step < verifMaxSpan)
	vsymAssume(rng > 0)
	vsymAssume(rng < verifMaxSpan)
	vsymAssume(off >= 0)
	vsymAssume(off < verifMaxSpan)
	withOffset := vsymBool("withOffset")
	end := vsymInt64("end")
	vsymAssume(start <= end)
	vsymAssume(end < start+S*step)
	one := &verifSeries{key: 7, name: "s"}
	var in []SampledEntry
	prev := int64(-verifMaxSpan * 4)
	for i := 0; i < N; i++ {
		ts := vsymInt64("ts")
		vsymAssume(prev <= ts)
		vsymAssume(ts < verifMaxInstant+verifMaxSpan)
		prev = ts
		in = append(in, SampledEntry{Sample: 1, Timestamp: otelstorage.Timestamp(ts), Set: one})
	}
	expr := &logql.RangeAggregationExpr{Op: logql.RangeOpCount}
	expr.Range.Range = time.Duration(rng)
	o := int64(0)
	if withOffset {
		expr.Range.Offset = &logql.OffsetExpr{Duration: time.Duration(off)}
		o = off
	}
	var qs, qe time.Time
	calls := 0
	sel := func(e *logql.RangeAggregationExpr, s, en time.Time) (iterators.Iterator[SampledEntry], error) {
		qs, qe = s, en
		calls++
		return iterators.Slice(in), nil
	}
	it, err := build(expr, sel, EvalParams{Start: time.Unix(0, start), End: time.Unix(0, end), Step: time.Duration(step)})
	vsymAssert(err == nil && calls == 1, "a range aggregation builds with one selection")
	vsymAssert(qs.UnixNano() == start-o-rng, "samples are fetched from start - offset - range")
	vsymAssert(qe.UnixNano() == end-o, "samples are fetched up to end - offset")
	var st Step
	k := int64(0)
	for it.Next(&st) {
		vsymAssert(k < S, "no more steps than grid points")
		T := start + k*step
		vsymFinding("F5", o != 0 && int64(st.Timestamp) == T-o, "with `offset o` the steps are stamped T-o instead of T")
		vsymAssert(int64(st.Timestamp) == T || (o != 0 && int64(st.Timestamp) == T-o), "the step is stamped with its evaluation time T")
		want := 0
		for _, e := range in {
			if T-o-rng <= int64(e.Timestamp) && int64(e.Timestamp) <= T-o {
				want++
			}
		}
		if want == 0 {
			vsymAssert(len(st.Samples) == 0, "an empty shifted window reports nothing")
		} else {
			vsymAssert(len(st.Samples) == 1 && st.Samples[0].Data == float64(want), "the value at T covers exactly [T-o-r, T-o]")
		}
		k++
	}
	vsymAssert(start+k*step > end && (k == 0 || start+(k-1)*step <= end), "steps are the grid points start + k*step <= end")
	vsymReach("C09_offset")
}

func VerifHarness_C09_Offset_2x2() { verifC09Offset(2, 2, false) }
func VerifHarness_C09_Offset_3x2() { verifC09Offset(3, 2, false) }
func VerifHarness_C09_OffsetStepPool_2x2() { verifC09Offset(2, 2, true) }
