//go:build verif

package logqlmetric

import (
	"math"
	"strconv"
	"time"

	"github.com/tdakkota/docker-logql/internal/iterators"
	"github.com/tdakkota/docker-logql/internal/logql"
)

func verifFloats(name string, n int) []float64 {
	vs := make([]float64, n)
	for i := range vs {
		vs[i] = vsymFloat64(name)
		vsymAssume(vs[i] == vs[i]) // NaN-free (stated)
	}
	return vs
}

func verifRefFold(kind int, vs []float64) float64 {
	switch kind {
	case 0: // sum
		s := 0.0
		for _, v := range vs {
			s += v
		}
		return s
	case 1: // count
		return float64(len(vs))
	case 2: // min
		m := vs[0]
		for _, v := range vs[1:] {
			if v < m {
				m = v
			}
		}
		return m
	case 3: // max
		m := vs[0]
		for _, v := range vs[1:] {
			if v > m {
				m = v
			}
		}
		return m
	case 4: // first
		return vs[0]
	default: // last
		return vs[len(vs)-1]
	}
}

// C11-O2: for every vector operator the built streaming aggregator computes
// that operator (sum, count, min, max by value; avg/stddev/stdvar by type).
func verifC11Dispatch(n int) {
	op := logql.VectorOp(vsymInt("op"))
	vsymAssume(op >= logql.VectorOpSum)
	vsymAssume(op <= logql.VectorOpStdvar)
	vs := verifFloats("v", n)
	mk, err := buildAggregator(&logql.VectorAggregationExpr{Op: op})
	vsymAssert(err == nil, "every plain vector operator has an aggregator")
	agg := mk()
	agg.Reset()
	for _, v := range vs {
		agg.Apply(v)
	}
	got := agg.Result()
	switch op {
	case logql.VectorOpSum:
		vsymAssert(vsymSameFloat(got, verifRefFold(0, vs)), "sum is the sum of the members")
	case logql.VectorOpCount:
		vsymAssert(got == verifRefFold(1, vs), "count is the number of members")
	case logql.VectorOpMin:
		vsymAssert(got == verifRefFold(2, vs), "min is the smallest member")
	case logql.VectorOpMax:
		vsymAssert(got == verifRefFold(3, vs), "max is the largest member")
	case logql.VectorOpAvg:
		_, ok := agg.(*AvgAggregator)
		vsymAssert(ok, "avg dispatches to the average aggregator")
	case logql.VectorOpStddev:
		_, ok := agg.(*StddevAggregator)
		vsymAssert(ok, "stddev dispatches to the standard-deviation aggregator")
	case logql.VectorOpStdvar:
		_, ok := agg.(*StdvarAggregator)
		vsymAssert(ok, "stdvar dispatches to the variance aggregator")
	default:
		vsymAssert(false, "unreachable operator")
	}
	vsymReach("C11_dispatch")
}

func VerifHarness_C11_Dispatch_2() { verifC11Dispatch(2) }
func VerifHarness_C11_Dispatch_3() { verifC11Dispatch(3) }

// C11-O3: topk / bottomk / sort / sort_desc over S samples in up to two
// groups: the k largest/smallest of each group, labels intact, each input at
// most once; sort returns all, ordered.
func verifC11TopK(S int) {
	vs := verifFloats("v", S)
	groupOf := make([]int, S)
	var samples []Sample
	for i := 0; i < S; i++ {
		groupOf[i] = vsymChoice("group", 2)
		samples = append(samples, Sample{Data: vs[i], Set: &verifSeries{key: uint64(7 + groupOf[i]), name: "s" + strconv.Itoa(i)}})
	}
	kind := vsymChoice("op", 4) // topk bottomk sort sort_desc
	expr := &logql.VectorAggregationExpr{}
	k := 0
	switch kind {
	case 0:
		expr.Op = logql.VectorOpTopk
	case 1:
		expr.Op = logql.VectorOpBottomk
	case 2:
		expr.Op = logql.VectorOpSort
	default:
		expr.Op = logql.VectorOpSortDesc
	}
	if kind < 2 {
		// k up to the number of series, and far beyond it (a k larger than
		// any vector is valid LogQL and must not cost anything)
		big := []int{S + 5, 70000, 1 << 40, math.MaxInt64}
		if c := vsymChoice("k", S+len(big)); c < S {
			k = 1 + c
		} else {
			k = big[c-S]
		}
		expr.Parameter = &k
	}
	it, err := VectorAggregation(iterators.Slice([]Step{{Timestamp: 9, Samples: samples}}), expr)
	vsymAssert(err == nil, "topk/sort builds")
	var st Step
	vsymAssert(it.Next(&st), "one step out")
	// identify outputs
	picked := make([]int, S)
	for _, o := range st.Samples {
		name := o.Set.AsLokiAPI()["series"]
		idx := -1
		for i := 0; i < S; i++ {
			if name == "s"+strconv.Itoa(i) {
				idx = i
			}
		}
		vsymAssert(idx >= 0, "every output is one of the input series, labels intact")
		vsymAssert(o.Data == vs[idx], "an output keeps the value of its series")
		picked[idx]++
		vsymAssert(picked[idx] == 1, "no input series is returned twice")
	}
	for g := 0; g < 2; g++ {
		members := 0
		chosen := 0
		for i := 0; i < S; i++ {
			if groupOf[i] == g {
				members++
				chosen += picked[i]
			}
		}
		if kind >= 2 {
			vsymAssert(chosen == members, "sort returns every series")
			continue
		}
		want := k
		if members < k {
			want = members
		}
		vsymAssert(chosen == want, "topk/bottomk return min(k, group size) series per group")
		for i := 0; i < S; i++ {
			for j := 0; j < S; j++ {
				if groupOf[i] == g && groupOf[j] == g && picked[i] == 1 && picked[j] == 0 {
					if kind == 0 {
						vsymAssert(vs[i] >= vs[j], "topk: no dropped series exceeds a returned one")
					} else {
						vsymAssert(vs[i] <= vs[j], "bottomk: no dropped series is below a returned one")
					}
				}
			}
		}
	}
	if kind >= 2 {
		// ordered within each group (groups are emitted one after another)
		for a := 0; a+1 < len(st.Samples); a++ {
			x, y := st.Samples[a], st.Samples[a+1]
			if x.Set.Key() == y.Set.Key() {
				if kind == 2 {
					vsymAssert(x.Data <= y.Data, "sort: ascending by value")
				} else {
					vsymAssert(x.Data >= y.Data, "sort_desc: descending by value")
				}
			}
		}
	}
	vsymReach("C11_topk")
}

func VerifHarness_C11_TopK_2() { verifC11TopK(2) }
func VerifHarness_C11_TopK_3() { verifC11TopK(3) }

// C09-O4: buildBatchAggregator dispatch: for every range operator the built
// object computes that function on k symbolic doubles.
func verifC09Aggregators(n int) {
	op := logql.RangeOp(vsymInt("op"))
	vsymAssume(op >= logql.RangeOpCount)
	vsymAssume(op <= logql.RangeOpAbsent)
	unwrap := vsymBool("unwrap")
	vs := verifFloats("v", n)
	pts := make([]FPoint, n)
	for i := range pts {
		pts[i] = FPoint{Timestamp: 100, Value: vs[i]}
	}
	q := 0.5
	expr := &logql.RangeAggregationExpr{Op: op, Parameter: &q}
	expr.Range.Range = 2 * time.Second
	if unwrap {
		expr.Range.Unwrap = &logql.UnwrapExpr{Label: "x"}
	}
	agg, err := buildBatchAggregator(expr)
	switch op {
	case logql.RangeOpRateCounter, logql.RangeOpAbsent:
		vsymAssert(err != nil, "unsupported range functions are reported as errors")
		vsymReach("C09_aggregators")
		return
	}
	vsymAssert(err == nil && agg != nil, "every supported range function has an aggregator")
	got := agg.Aggregate(pts)
	const rs = 2.0
	switch op {
	case logql.RangeOpCount:
		vsymAssert(got == float64(n), "count_over_time counts the window")
	case logql.RangeOpRate:
		if unwrap {
			vsymAssert(vsymSameFloat(got, verifRefFold(0, vs)/rs), "rate over unwrapped values = sum / range seconds")
		} else {
			vsymAssert(got == float64(n)/rs, "rate = count / range seconds")
		}
	case logql.RangeOpBytes, logql.RangeOpSum:
		vsymAssert(vsymSameFloat(got, verifRefFold(0, vs)), "bytes_over_time / sum_over_time sum the window")
	case logql.RangeOpBytesRate:
		vsymAssert(vsymSameFloat(got, verifRefFold(0, vs)/rs), "bytes_rate = sum / range seconds")
	case logql.RangeOpMin:
		vsymAssert(got == verifRefFold(2, vs), "min_over_time")
	case logql.RangeOpMax:
		vsymAssert(got == verifRefFold(3, vs), "max_over_time")
	case logql.RangeOpFirst:
		vsymAssert(got == verifRefFold(4, vs), "first_over_time")
	case logql.RangeOpLast:
		vsymAssert(got == verifRefFold(5, vs), "last_over_time")
	case logql.RangeOpAvg:
		_, ok := agg.(*AvgOverTime)
		vsymAssert(ok, "avg_over_time dispatch")
	case logql.RangeOpStdvar:
		_, ok := agg.(*StdvarOverTime)
		vsymAssert(ok, "stdvar_over_time dispatch")
	case logql.RangeOpStddev:
		_, ok := agg.(*StddevOverTime)
		vsymAssert(ok, "stddev_over_time dispatch")
	case logql.RangeOpQuantile:
		qa, ok := agg.(*QuantileOverTime)
		vsymAssert(ok && qa.param == q, "quantile_over_time dispatch with its parameter")
	default:
		vsymAssert(false, "unreachable operator")
	}
	vsymReach("C09_aggregators")
}

func VerifHarness_C09_Aggregators_2() { verifC09Aggregators(2) }
func VerifHarness_C09_Aggregators_3() { verifC09Aggregators(3) }

// C11-O5: vector aggregations over several steps: every step's result is what
// a fresh iterator yields for that step alone (no group, heap or aggregator
// state survives from one step to the next).
func verifC11Steps(steps int) {
	type opSpec struct {
		op logql.VectorOp
		k  int
	}
	ops := []opSpec{{logql.VectorOpSum, 0}, {logql.VectorOpCount, 0}, {logql.VectorOpMax, 0}, {logql.VectorOpTopk, 1}, {logql.VectorOpBottomk, 2}, {logql.VectorOpSort, 0}, {logql.VectorOpSortDesc, 0}}
	o := ops[vsymChoice("op", len(ops))]
	mkExpr := func() *logql.VectorAggregationExpr {
		e := &logql.VectorAggregationExpr{Op: o.op}
		if o.k > 0 {
			k := o.k
			e.Parameter = &k
		}
		return e
	}
	// three series in two groups; which are present varies per step
	series := []*verifSeries{{key: 7, name: "a1"}, {key: 7, name: "a2"}, {key: 8, name: "b1"}}
	var in []Step
	for s := 0; s < steps; s++ {
		var ss []Sample
		for i, se := range series {
			if vsymChoice("present", 2) == 1 {
				ss = append(ss, Sample{Data: float64(10*(s+1) + i), Set: se})
			}
		}
		in = append(in, Step{Timestamp: otelstorageTS(s + 1), Samples: ss})
	}
	multi, err := VectorAggregation(iterators.Slice(in), mkExpr())
	vsymAssert(err == nil, "vector aggregation builds")
	render := func(st Step) map[string]int {
		m := map[string]int{}
		for _, x := range st.Samples {
			m[strconv.FormatUint(x.Set.Key(), 10)+"/"+x.Set.AsLokiAPI()["series"]+"="+strconv.FormatFloat(x.Data, 'g', -1, 64)]++
		}
		return m
	}
	for s := 0; s < steps; s++ {
		var got Step
		vsymAssert(multi.Next(&got), "one output step per input step")
		single, err := VectorAggregation(iterators.Slice([]Step{in[s]}), mkExpr())
		vsymAssert(err == nil, "vector aggregation builds")
		var want Step
		vsymAssert(single.Next(&want), "single step evaluates")
		g, w := render(got), render(want)
		vsymAssert(len(g) == len(w) && len(got.Samples) == len(want.Samples), "a step reports exactly the series of that step's input vector")
		for k, n := range w {
			vsymAssert(g[k] == n, "a step's result does not depend on earlier steps")
		}
		vsymAssert(got.Timestamp == want.Timestamp, "steps keep their timestamps")
	}
	vsymReach("C11_steps")
}

func VerifHarness_C11_Steps_2() { verifC11Steps(2) }
func VerifHarness_C11_Steps_3() { verifC11Steps(3) }

// C11-O6: avg / stdvar / stddev by value.  Members come from a pool of
// numerically awkward values (fractions whose squares are inexact, large
// magnitudes with a small spread, negatives); the aggregate must agree with the
// two-pass reference (mean, then mean squared deviation) within 1e-6 relative,
// a variance is never negative and a standard deviation of numbers is a number.
func verifC11Moments(maxN int) {
	pool := []float64{0.1, 4.35, 1, 2, 3, 1e9 + 1, 1e9 + 2, 1e9 + 3, 1700000001, -2.5, 0}
	n := 1 + vsymChoice("n", maxN)
	var vs []float64
	for i := 0; i < n; i++ {
		vs = append(vs, pool[vsymChoice("member", len(pool))])
	}
	mean := 0.0
	for _, v := range vs {
		mean += v
	}
	mean /= float64(n)
	variance := 0.0
	for _, v := range vs {
		variance += (v - mean) * (v - mean)
	}
	variance /= float64(n)
	close := func(got, want float64) bool {
		d := got - want
		if d < 0 {
			d = -d
		}
		scale := want
		if scale < 0 {
			scale = -scale
		}
		if scale < 1 {
			scale = 1
		}
		return d <= 1e-6*scale
	}
	run := func(op logql.VectorOp) float64 {
		mk, err := buildAggregator(&logql.VectorAggregationExpr{Op: op})
		vsymAssert(err == nil, "the operator has an aggregator")
		agg := mk()
		agg.Reset()
		for _, v := range vs {
			agg.Apply(v)
		}
		return agg.Result()
	}
	avg := run(logql.VectorOpAvg)
	vsymAssert(close(avg, mean), "avg is the mean of the members")
	sv := run(logql.VectorOpStdvar)
	vsymAssert(sv >= 0, "a variance is never negative")
	vsymAssert(close(sv, variance), "stdvar is the mean squared deviation of the members")
	sd := run(logql.VectorOpStddev)
	vsymAssert(sd == sd && sd >= 0, "a standard deviation of numbers is a number")
	vsymAssert(close(sd*sd, variance), "stddev is the square root of the variance")
	vsymReach("C11_moments")
}

func VerifHarness_C11_Moments_3() { verifC11Moments(3) }
func VerifHarness_C11_Moments_4() { verifC11Moments(4) }

// C11-O7: aggregations over vector(n), the series with the empty label set:
// every operator and grouping clause yields one series with no labels whose
// value is the aggregate of that one input.
func VerifHarness_C11_OverVector() {
	ops := []struct {
		op   logql.VectorOp
		want float64
	}{{logql.VectorOpSum, 2.5}, {logql.VectorOpAvg, 2.5}, {logql.VectorOpMin, 2.5}, {logql.VectorOpMax, 2.5}, {logql.VectorOpCount, 1},
		{logql.VectorOpStddev, 0}, {logql.VectorOpStdvar, 0}, {logql.VectorOpTopk, 2.5}, {logql.VectorOpBottomk, 2.5}, {logql.VectorOpSort, 2.5}, {logql.VectorOpSortDesc, 2.5}}
	o := ops[vsymChoice("op", len(ops))]
	expr := &logql.VectorAggregationExpr{Op: o.op, Expr: &logql.VectorExpr{Value: 2.5}}
	if o.op == logql.VectorOpTopk || o.op == logql.VectorOpBottomk {
		k := 1 + vsymChoice("k", 2)
		expr.Parameter = &k
	}
	if o.op != logql.VectorOpSort && o.op != logql.VectorOpSortDesc {
		switch vsymChoice("grouping", 4) {
		case 1:
			expr.Grouping = &logql.Grouping{Labels: []logql.Label{"a"}}
		case 2:
			expr.Grouping = &logql.Grouping{Labels: []logql.Label{"a"}, Without: true}
		case 3:
			expr.Grouping = &logql.Grouping{}
		}
	}
	t0 := time.Unix(1700000000, 0)
	it, err := build(expr, nil, EvalParams{Start: t0, End: t0.Add(time.Second), Step: time.Second})
	vsymAssert(err == nil, "an aggregation over vector(n) builds")
	n := 0
	var st Step
	for it.Next(&st) {
		vsymAssert(len(st.Samples) == 1, "one series in, one series out")
		vsymAssert(st.Samples[0].Data == o.want, "the value is the aggregate of the single input")
		vsymAssert(len(st.Samples[0].Set.AsLokiAPI()) == 0, "the series has no labels")
		n++
	}
	vsymAssert(n == 2 && it.Err() == nil, "one value per step")
	vsymReach("C11_over_vector")
}

// C09-O3: range functions by value.  A window of 1..3 points with values from
// a pool and a range from a pool that includes fractional seconds goes through
// the aggregator that build() would choose; the value must be the function's
// definition (rates divide by the range in seconds, fractional part included).
func verifC09Values(maxN int) {
	pool := []float64{1, 2.5, 4, 0.1, -3, 1e9 + 1}
	ranges := []time.Duration{1500 * time.Millisecond, 2 * time.Second, 500 * time.Millisecond, 750 * time.Millisecond, time.Minute, 2500 * time.Millisecond}
	n := 1 + vsymChoice("n", maxN)
	var pts []FPoint
	var vs []float64
	for i := 0; i < n; i++ {
		v := pool[vsymChoice("value", len(pool))]
		vs = append(vs, v)
		pts = append(pts, FPoint{Timestamp: otelstorageTS(1000 + i), Value: v})
	}
	rng := ranges[vsymChoice("range", len(ranges))]
	secs := float64(rng) / 1e9
	sum, min, max := 0.0, vs[0], vs[0]
	for _, v := range vs {
		sum += v
		if v < min {
			min = v
		}
		if v > max {
			max = v
		}
	}
	mean := sum / float64(n)
	variance := 0.0
	for _, v := range vs {
		variance += (v - mean) * (v - mean)
	}
	variance /= float64(n)
	close := func(got, want float64) bool {
		d := got - want
		if d < 0 {
			d = -d
		}
		scale := want
		if scale < 0 {
			scale = -scale
		}
		if scale < 1 {
			scale = 1
		}
		return d <= 1e-6*scale
	}
	ops := []logql.RangeOp{logql.RangeOpCount, logql.RangeOpRate, logql.RangeOpBytes, logql.RangeOpBytesRate, logql.RangeOpSum,
		logql.RangeOpAvg, logql.RangeOpMin, logql.RangeOpMax, logql.RangeOpFirst, logql.RangeOpLast, logql.RangeOpStdvar, logql.RangeOpStddev}
	op := ops[vsymChoice("op", len(ops))]
	expr := &logql.RangeAggregationExpr{Op: op}
	expr.Range.Range = rng
	unwrapped := false
	if op == logql.RangeOpRate && vsymBool("unwrap") {
		expr.Range.Unwrap = &logql.UnwrapExpr{Label: "v"}
		unwrapped = true
	}
	agg, err := buildBatchAggregator(expr)
	vsymAssert(err == nil, "the range function has an aggregator")
	got := agg.Aggregate(pts)
	switch op {
	case logql.RangeOpCount:
		vsymAssert(got == float64(n), "count_over_time counts the samples of the window")
	case logql.RangeOpRate:
		if unwrapped {
			vsymAssert(close(got, sum/secs), "rate over unwrapped values is their sum per second of the range")
		} else {
			vsymAssert(close(got, float64(n)/secs), "rate is the number of samples per second of the range")
		}
	case logql.RangeOpBytes, logql.RangeOpSum:
		vsymAssert(close(got, sum), "sum_over_time / bytes_over_time sum the samples")
	case logql.RangeOpBytesRate:
		vsymAssert(close(got, sum/secs), "bytes_rate is the number of bytes per second of the range")
	case logql.RangeOpAvg:
		vsymAssert(close(got, mean), "avg_over_time is the mean")
	case logql.RangeOpMin:
		vsymAssert(got == min, "min_over_time is the smallest sample")
	case logql.RangeOpMax:
		vsymAssert(got == max, "max_over_time is the largest sample")
	case logql.RangeOpFirst:
		vsymAssert(got == vs[0], "first_over_time is the earliest sample")
	case logql.RangeOpLast:
		vsymAssert(got == vs[n-1], "last_over_time is the latest sample")
	case logql.RangeOpStdvar:
		vsymAssert(got >= 0 && close(got, variance), "stdvar_over_time is the mean squared deviation")
	default:
		vsymAssert(got == got && got >= 0 && close(got*got, variance), "stddev_over_time is the square root of the variance")
	}
	vsymReach("C09_values")
}

func VerifHarness_C09_Values_2() { verifC09Values(2) }
func VerifHarness_C09_Values_3() { verifC09Values(3) }

// C11-O3b: topk / bottomk over a group that contains NaN (x/0 of C12 produces
// it).  Wherever NaN is ranked, the numbers among the returned series must be
// the largest (smallest) numbers of the group: no dropped number beats a
// returned one.
func verifC11TopKNaN(S int) {
	pool := []float64{math.NaN(), 1, 2, 3}
	var vs []float64
	var samples []Sample
	for i := 0; i < S; i++ {
		v := pool[vsymChoice("value", len(pool))]
		vs = append(vs, v)
		samples = append(samples, Sample{Data: v, Set: &verifSeries{key: 7, name: "s" + strconv.Itoa(i)}})
	}
	top := vsymBool("topk")
	k := 1 + vsymChoice("k", 2)
	expr := &logql.VectorAggregationExpr{Op: logql.VectorOpBottomk, Parameter: &k}
	if top {
		expr.Op = logql.VectorOpTopk
	}
	it, err := VectorAggregation(iterators.Slice([]Step{{Timestamp: 9, Samples: samples}}), expr)
	vsymAssert(err == nil, "topk builds")
	var st Step
	vsymAssert(it.Next(&st), "one step out")
	picked := make([]bool, S)
	for _, o := range st.Samples {
		name := o.Set.AsLokiAPI()["series"]
		for i := 0; i < S; i++ {
			if name == "s"+strconv.Itoa(i) {
				vsymAssert(!picked[i], "no input series is returned twice")
				picked[i] = true
			}
		}
	}
	want := k
	if S < k {
		want = S
	}
	vsymAssert(len(st.Samples) == want, "topk/bottomk return min(k, group size) series")
	for i := 0; i < S; i++ {
		for j := 0; j < S; j++ {
			if picked[i] && !picked[j] && vs[i] == vs[i] && vs[j] == vs[j] {
				beaten := vs[j] > vs[i]
				if !top {
					beaten = vs[j] < vs[i]
				}
				if beaten {
					vsymFinding("F45", true, "topk/bottomk return the wrong series when the group contains NaN: a NaN that enters the heap sits at its root and is never evicted (every comparison of a number against it is false), so all later series are rejected whatever their values")
					return
				}
			}
		}
	}
	// NaN is not one of the k largest or smallest values: it takes a place
	// only when the group has fewer than k numbers (the repository's own
	// ordering since the repair of F45: Less/Greater rank NaN last)
	for i := 0; i < S; i++ {
		for j := 0; j < S; j++ {
			if picked[i] && vs[i] != vs[i] && !picked[j] && vs[j] == vs[j] {
				vsymAssert(false, "a NaN series is returned by topk/bottomk only when the group has fewer than k numbers: here a number was dropped in favour of NaN")
			}
		}
	}
	vsymReach("C11_topk_nan")
}

func VerifHarness_C11_TopKNaN_3() { verifC11TopKNaN(3) }
func VerifHarness_C11_TopKNaN_4() { verifC11TopKNaN(4) }
