//go:build verif

package logqlengine

import (
	"regexp"

	"go.opentelemetry.io/collector/pdata/pcommon"

	"github.com/tdakkota/docker-logql/internal/logql"
)

func verifLower(tag string, n int) string {
	s := vsymString(tag, n)
	for i := 0; i < len(s); i++ {
		vsymAssume(s[i] >= 'a')
		vsymAssume(s[i] <= 'z')
	}
	return s
}

func verifNoErr(set LabelSet) bool {
	_, has := set.GetError()
	return !has
}

// C06-O1: pattern stage: every named capture is reported with exactly its
// value, `_` is not, the line is kept unchanged; a non-matching line is kept.
func verifC06Pattern(maxLen int) {
	which := vsymChoice("pattern", 4)
	var pat, line string
	want := map[string]string{}
	a := vsymString("a", 1+vsymChoice("alen", maxLen))
	u := vsymString("u", 1+vsymChoice("ulen", maxLen))
	b := vsymString("b", vsymChoice("blen", maxLen+1))
	noByte := func(s string, c byte) {
		for i := 0; i < len(s); i++ {
			vsymAssume(s[i] != c)
		}
	}
	switch which {
	case 0:
		pat = "<a> <_> <b>"
		noByte(a, ' ')
		noByte(u, ' ')
		line = a + " " + u + " " + b
		want["a"], want["b"] = a, b
	case 1:
		pat = "x<a>:<b>y"
		noByte(a, ':')
		noByte(b, 'y')
		line = "x" + a + ":" + b + "y"
		want["a"], want["b"] = a, b
	case 3:
		// a multi-byte delimiter: the capture may hold any bytes (it is too
		// short to contain the three-byte delimiter), among them the
		// delimiter's own lead byte
		pat = "<a>\u2192<b>"
		line = a + "\u2192" + b
		want["a"], want["b"] = a, b
	default:
		pat = "[<_>] <b>"
		noByte(u, ']')
		line = "[" + u + "] " + b
		want["b"] = b
	}
	matches := vsymBool("matches")
	if !matches {
		line = "#" + line // breaks the leading literal / shifts the first capture
	}
	proc, err := buildPatternExtractor(&logql.PatternLabelParser{Pattern: pat})
	vsymAssert(err == nil, "pattern compiles")
	set := newLabelSet()
	set.Set("keepme", pcommon.NewValueStr("k"))
	out, keep := proc.Process(1, line, set)
	vsymAssert(keep && out == line, "pattern never drops or changes the line")
	_, hasUnderscore := verifGet(set, "_")
	vsymAssert(!hasUnderscore, "the anonymous capture <_> is not exposed")
	k, ok := verifGet(set, "keepme")
	vsymAssert(ok && k == "k", "unrelated labels are untouched")
	if matches {
		for name, v := range want {
			got, ok := verifGet(set, name)
			vsymAssert(ok && got == v, "every named capture is exposed with exactly its value")
		}
	}
	vsymReach("C06_pattern")
}

func VerifHarness_C06_Pattern_1() { verifC06Pattern(1) }
func VerifHarness_C06_Pattern_2() { verifC06Pattern(2) }

// C06-O3: json / logfmt / unpack over the real decoders: documents assembled
// from concrete skeletons and symbolic values, cut at every position.
func verifC06JSON(valLen int) {
	v := verifLower("v", valLen)
	// integers beyond 2^53 must come out digit for digit (ids, nanosecond timestamps)
	nums := []string{"5", "2.5", "-3", "9007199254740993", "9223372036854775807", "-9007199254740993", "12345678901234567890"}
	num := nums[vsymChoice("num", len(nums))]
	doc := `{"k1":"` + v + `","k2":` + num + `,"k.3":true,"k-4":"z","o":{"in":"x"},"n":null}`
	cut := len(doc)
	if vsymBool("truncated") {
		cut = vsymChoice("cut", len(doc))
	}
	line := doc[:cut]
	mode := vsymChoice("mode", 3)
	stage := &logql.JSONExpressionParser{}
	switch mode {
	case 1:
		stage.Labels = []logql.Label{"k1", "missing"}
	case 2:
		stage.Exprs = []logql.LabelExtractionExpr{{Label: "x", Expr: "k1"}, {Label: "y", Expr: `["k.3"]`}, {Label: "z", Expr: "o.in"}}
		stage.Labels = []logql.Label{"k2"}
	}
	proc, err := buildJSONExtractor(stage)
	vsymAssert(err == nil, "json stage builds")
	set := newLabelSet()
	set.Set("k1", pcommon.NewValueStr("old"))
	out, keep := proc.Process(1, line, set)
	vsymAssert(keep && out == line, "json never drops or changes the line")
	if cut < len(doc) {
		vsymAssert(!verifNoErr(set), "a line that is not a JSON object is flagged with __error__")
		vsymReach("C06_json")
		return
	}
	if !verifNoErr(set) && num == "12345678901234567890" && mode != 2 {
		vsymFinding("F42", true, "a JSON integer beyond the int64 range (an unsigned 64-bit id) makes `| json` flag the whole well-formed line with __error__ and stop extracting: the fields after it are not exposed, so a later label filter drops the record depending on the key order of the line")
		return
	}
	vsymAssert(verifNoErr(set), "a well-formed object raises no error")
	get := func(n string) (string, bool) { return verifGet(set, n) }
	switch mode {
	case 0:
		g, ok := get("k1")
		vsymAssert(ok && g == v, "all fields: string field exposed, overriding the existing label")
		g, ok = get("k2")
		vsymAssert(ok && g == num, "all fields: number field exposed with its value")
		g, ok = get("k_3")
		vsymAssert(ok && g == "true", "all fields: key sanitised to a valid label name")
		g, ok = get("k_4")
		vsymAssert(ok && g == "z", "all fields: every sanitised key keeps its own name and value")
		_, ok = get("n")
		vsymAssert(!ok, "null fields are not exposed")
	case 1:
		g, ok := get("k1")
		vsymAssert(ok && g == v, "requested field exposed, overriding the existing label")
		_, ok = get("k2")
		vsymAssert(!ok, "fields that were not requested are not exposed")
		_, ok = get("missing")
		vsymAssert(!ok, "a requested field that is absent is not invented")
	default:
		g, ok := get("x")
		vsymAssert(ok && g == v, "path expression k1")
		g, ok = get("y")
		vsymAssert(ok && g == "true", `path expression ["k.3"]`)
		g, ok = get("z")
		vsymAssert(ok && g == "x", "nested path expression o.in")
		g, ok = get("k2")
		vsymAssert(ok && g == num, "a plain label next to expressions")
		g, ok = get("k1")
		vsymAssert(ok && g == "old", "labels that were not requested keep their value")
	}
	vsymReach("C06_json")
}

func VerifHarness_C06_JSON_1() { verifC06JSON(1) }
func VerifHarness_C06_JSON_2() { verifC06JSON(2) }

func verifC06Logfmt(valLen int) {
	v1 := verifLower("v1", valLen)
	v2 := verifLower("v2", valLen)
	line := `k1=` + v1 + ` k2="` + v2 + ` q" k3`
	bad := vsymBool("malformed")
	if bad {
		line = `k1=` + v1 + ` k2="` + v2 // unterminated quoted value
	}
	mode := vsymChoice("mode", 2)
	stage := &logql.LogfmtExpressionParser{}
	if mode == 1 {
		stage.Labels = []logql.Label{"k2"}
		stage.Exprs = []logql.LabelExtractionExpr{{Label: "renamed", Expr: "k1"}}
	}
	proc, err := buildLogfmtExtractor(stage)
	vsymAssert(err == nil, "logfmt stage builds")
	set := newLabelSet()
	set.Set("k2", pcommon.NewValueStr("old"))
	out, keep := proc.Process(1, line, set)
	vsymAssert(keep && out == line, "logfmt never drops or changes the line")
	if bad {
		vsymAssert(!verifNoErr(set), "a malformed logfmt line is flagged with __error__")
		vsymReach("C06_logfmt")
		return
	}
	vsymAssert(verifNoErr(set), "a well-formed record raises no error")
	if mode == 0 {
		g, ok := verifGet(set, "k1")
		vsymAssert(ok && g == v1, "all fields: k1")
		g, ok = verifGet(set, "k2")
		vsymAssert(ok && g == v2+" q", "all fields: quoted value, overriding the existing label")
		g, ok = verifGet(set, "k3")
		vsymAssert(ok && g == "", "a key without value is exposed with the empty value")
	} else {
		g, ok := verifGet(set, "renamed")
		vsymAssert(ok && g == v1, "expression: k1 exposed as renamed")
		g, ok = verifGet(set, "k2")
		vsymAssert(ok && g == v2+" q", "requested field")
		_, ok = verifGet(set, "k1")
		vsymAssert(!ok, "fields that were not requested are not exposed")
	}
	vsymReach("C06_logfmt")
}

func VerifHarness_C06_Logfmt_1() { verifC06Logfmt(1) }
func VerifHarness_C06_Logfmt_2() { verifC06Logfmt(2) }

func verifC06Unpack(valLen int) {
	e := verifLower("entry", valLen)
	v := verifLower("v", valLen)
	doc := `{"lbl":"` + v + `","_entry":"` + e + `","n":5}`
	kind := vsymChoice("kind", 4)
	line := doc
	switch kind {
	case 1:
		line = doc[:vsymChoice("cut", len(doc))]
	case 2:
		line = `{"1bad":"x","_entry":"` + e + `"}` // invalid label name
	case 3:
		line = `{"lbl":"` + v + `"}` // no _entry
	}
	proc, err := buildUnpackExtractor(&logql.UnpackLabelParser{})
	vsymAssert(err == nil, "unpack stage builds")
	set := newLabelSet()
	out, keep := proc.Process(1, line, set)
	vsymAssert(keep, "unpack never drops a line")
	switch kind {
	case 0:
		vsymAssert(out == e, "a packed line is replaced by its _entry")
		g, ok := verifGet(set, "lbl")
		vsymAssert(ok && g == v && verifNoErr(set), "other string fields become labels")
		_, ok = verifGet(set, "n")
		vsymAssert(!ok, "non-string fields are ignored")
	case 1, 2:
		vsymAssert(out == line, "a line that cannot be unpacked is left unchanged")
		vsymAssert(!verifNoErr(set), "and flagged with __error__")
	default:
		vsymAssert(out == line && verifNoErr(set), "without _entry the line stays as it is")
	}
	vsymReach("C06_unpack")
}

func VerifHarness_C06_Unpack_1() { verifC06Unpack(1) }
func VerifHarness_C06_Unpack_2() { verifC06Unpack(2) }

// C06-O4: regexp stage: exactly the named groups become labels; no match
// sets nothing; SetError keeps the first error.
func VerifHarness_C06_RegexpAndError() {
	re := regexp.MustCompile(`(?P<m>a+)(b)(?P<n>c?)`)
	proc, err := buildRegexpExtractor(&logql.RegexpLabelParser{Regexp: re, Mapping: map[int]logql.Label{1: "m", 3: "n"}})
	vsymAssert(err == nil, "regexp stage builds")
	lines := []struct{ line, m, n string; match bool }{{"xaabcx", "aa", "c", true}, {"ab", "a", "", true}, {"zzz", "", "", false}, {"", "", "", false}}
	c := lines[vsymChoice("line", len(lines))]
	set := newLabelSet()
	out, keep := proc.Process(1, c.line, set)
	vsymAssert(keep && out == c.line, "regexp never drops or changes the line")
	m, okm := verifGet(set, "m")
	n, okn := verifGet(set, "n")
	if c.match {
		vsymAssert(okm && m == c.m && okn && n == c.n, "named groups are exposed with their values")
		vsymAssert(len(set.labels) == 2, "unnamed groups are not exposed")
	} else {
		vsymAssert(!okm && !okn && len(set.labels) == 0, "no match: nothing is set")
	}
	// a named group that takes no part in the match is exposed empty, not a crash
	re2 := regexp.MustCompile(`(?P<method>GET|POST)?\s*(?P<path>/\S*)`)
	proc2, err := buildRegexpExtractor(&logql.RegexpLabelParser{Regexp: re2, Mapping: map[int]logql.Label{1: "method", 2: "path"}})
	vsymAssert(err == nil, "regexp stage with an optional group builds")
	opt := []struct{ line, method, path string }{{"/healthz", "", "/healthz"}, {"GET /x", "GET", "/x"}, {"POST/", "POST", "/"}}
	oc := opt[vsymChoice("optline", len(opt))]
	set3 := newLabelSet()
	out3, keep3 := proc2.Process(1, oc.line, set3)
	vsymAssert(keep3 && out3 == oc.line, "regexp never drops or changes the line")
	gm, okgm := verifGet(set3, "method")
	gp, okgp := verifGet(set3, "path")
	vsymAssert(okgm && gm == oc.method && okgp && gp == oc.path, "an optional named group that did not take part in the match is exposed with the empty value")
	// first error wins
	set2 := newLabelSet()
	set2.SetError("first", errVerifFake)
	set2.SetError("second", errVerifFake)
	e, _ := set2.GetError()
	vsymAssert(e == "first", "SetError keeps the first error")
	vsymReach("C06_regexp")
}

// C06-O3b: a stage instance processes a stream of lines: what an earlier
// (malformed or well-formed) line did must not change what a later
// well-formed line exposes.
func verifC06Sequence(valLen int) {
	firsts := []string{
		`{"k1":"a","o":{"in":"b"}}`,
		`{"k1":"a","o":{"in":"b`,
		`{"k1":"a","o":{"in": }`,
		`{"k1":`,
		`plain text`,
		`{"o":{"p":{"q":[1,{"r":`,
	}
	first := firsts[vsymChoice("first", len(firsts))]
	v := verifLower("v", valLen)
	second := `{"k1":"` + v + `","o":{"in":"x"},"k.3":7}`
	mode := vsymChoice("mode", 4)
	var proc Processor
	var err error
	switch mode {
	case 0:
		proc, err = buildJSONExtractor(&logql.JSONExpressionParser{})
	case 1:
		proc, err = buildJSONExtractor(&logql.JSONExpressionParser{Labels: []logql.Label{"k1"}})
	case 2:
		proc, err = buildJSONExtractor(&logql.JSONExpressionParser{
			Exprs: []logql.LabelExtractionExpr{{Label: "x", Expr: "k1"}, {Label: "z", Expr: "o.in"}}})
	default:
		proc, err = buildUnpackExtractor(&logql.UnpackLabelParser{})
		second = `{"k1":"` + v + `","_entry":"e"}`
	}
	vsymAssert(err == nil, "stage builds")
	s1 := newLabelSet()
	out1, keep1 := proc.Process(1, first, s1)
	vsymAssert(keep1 && (mode == 3 || out1 == first), "the first line is kept")
	s2 := newLabelSet()
	out2, keep2 := proc.Process(2, second, s2)
	vsymAssert(keep2, "the second line is kept")
	vsymAssert(verifNoErr(s2), "a well-formed line raises no error, whatever came before")
	switch mode {
	case 0, 1:
		g, ok := verifGet(s2, "k1")
		vsymAssert(ok && g == v && out2 == second, "a well-formed line exposes its fields, whatever came before")
	case 2:
		g, ok := verifGet(s2, "x")
		vsymAssert(ok && g == v, "path expression k1 on the later line")
		g, ok = verifGet(s2, "z")
		vsymAssert(ok && g == "x" && out2 == second, "nested path expression on the later line")
	default:
		g, ok := verifGet(s2, "k1")
		vsymAssert(ok && g == v && out2 == "e", "unpack on the later line")
	}
	vsymReach("C06_sequence")
}

func VerifHarness_C06_Sequence_1() { verifC06Sequence(1) }
func VerifHarness_C06_Sequence_2() { verifC06Sequence(2) }

// C06-O3c: logfmt over a line assembled from a symbolic sequence of pairs
// (keys may repeat) with an optional malformed tail, and a symbolic set of
// requested keys: the last occurrence of a requested key wins, keys that were
// not requested stay hidden, and a malformed line is flagged wherever the
// malformed part is.
func verifC06LogfmtSeq(nPairs int) {
	keys := []string{"k1", "k2", "k3"}
	var line string
	last := map[string]string{}
	for i := 0; i < nPairs; i++ {
		k := keys[vsymChoice("key", len(keys))]
		v := verifLower("v", 1)
		if i > 0 {
			line += " "
		}
		line += k + "=" + v
		last[k] = v
	}
	bad := vsymBool("malformed")
	if bad {
		line += ` z="u`
	}
	var req []logql.Label
	for _, k := range keys {
		if vsymBool("req_" + k) {
			req = append(req, logql.Label(k))
		}
	}
	proc, err := buildLogfmtExtractor(&logql.LogfmtExpressionParser{Labels: req})
	vsymAssert(err == nil, "logfmt stage builds")
	set := newLabelSet()
	out, keep := proc.Process(1, line, set)
	vsymAssert(keep && out == line, "logfmt never drops or changes the line")
	vsymAssert(verifNoErr(set) == !bad, "a line is flagged with __error__ exactly when it is malformed")
	for _, k := range keys {
		requested := len(req) == 0
		for _, r := range req {
			if string(r) == k {
				requested = true
			}
		}
		g, ok := verifGet(set, k)
		want, present := last[k]
		if requested && present {
			vsymAssert(ok && g == want, "a requested key present in the line is exposed with its last value")
		} else {
			vsymAssert(!ok, "keys that are absent or were not requested are not exposed")
		}
	}
	vsymReach("C06_logfmt_seq")
}

func VerifHarness_C06_LogfmtSeq_3() { verifC06LogfmtSeq(3) }
func VerifHarness_C06_LogfmtSeq_4() { verifC06LogfmtSeq(4) }
