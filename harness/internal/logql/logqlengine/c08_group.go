//go:build verif

package logqlengine

import (
	"github.com/tdakkota/docker-logql/internal/logstorage"
)

// C08: groupEntries partitions the result into streams by final label set,
// sorts each stream by time and honours the limit; label values come from a
// quoting-sensitive alphabet and every map iteration order is explored.
func verifC08Group(N, maxVal int) {
	alphabet := func(s string) {
		for i := 0; i < len(s); i++ {
			c := s[i]
			ok := vsymOr(vsymOr(c == '"', c == '\\'), vsymOr(vsymOr(c == ',', c == '='), c == 'x'))
			vsymAssume(ok)
		}
	}
	has := make([]bool, N)
	vals := make([]string, N)
	ts := make([]uint64, N)
	var recs []logstorage.Record
	for j := 0; j < N; j++ {
		has[j] = vsymBool("hasA")
		vals[j] = vsymString("a", 1+vsymChoice("alen", maxVal))
		alphabet(vals[j])
		if N >= 3 {
			// only order and equality of timestamps matter to grouping, sorting and
			// the limit: 8-bit symbolic instants realise every order of 3 records
			ts[j] = uint64(vsymByte("ts"))
		} else {
			ts[j] = vsymUint64("ts")
		}
		for i := 0; i < j; i++ {
			vsymAssume(ts[i] != ts[j]) // entries are identified by their timestamps
		}
		attrs := map[string]string{}
		if has[j] {
			attrs["a"] = vals[j]
		}
		// equal bodies: the record's line also becomes its `msg` label
		rec := verifRecord(0, "x", attrs)
		rec.Timestamp = logstorage.Record{}.Timestamp + 0
		recs = append(recs, rec)
		recs[j].Timestamp = verifTS(ts[j])
	}
	limit := vsymInt("limit")
	vsymAssume(limit >= -1)
	vsymAssume(limit <= N+1)
	cur := 0
	it := &entryIterator{iter: &verifCountingIter{recs: recs, cur: &cur}, prefilter: NopProcessor, pipeline: NopProcessor, limit: limit}
	vsymMapOrderAll()
	streams, err := groupEntries(it)
	vsymMapOrderDefault()
	vsymAssert(err == nil, "grouping succeeds")
	want := N
	if limit > 0 && limit < N {
		want = limit
	}
	total := 0
	for si, st := range streams {
		total += len(st.Values)
		vsymAssert(len(st.Values) > 0, "no empty stream")
		for k := 0; k+1 < len(st.Values); k++ {
			vsymAssert(st.Values[k].T <= st.Values[k+1].T, "[maporder] entries within a stream are in timestamp order")
		}
		for sj := 0; sj < si; sj++ {
			vsymAssert(!verifMapEq(streams[sj].Stream.Value, st.Stream.Value), "[maporder] no two streams share a label set")
		}
	}
	vsymAssert(total == want, "[maporder] the result holds min(limit, N) entries for a positive limit, all N otherwise")
	// where each record sits
	inStreams := make([]int, N)
	for j := 0; j < N; j++ {
		labels := map[string]string{"msg": "x"}
		if has[j] {
			labels["a"] = vals[j]
		}
		elsewhere := 0
		for _, st := range streams {
			same := verifMapEq(st.Stream.Value, labels)
			for _, e := range st.Values {
				if e.T == ts[j] {
					if same {
						inStreams[j]++
						vsymAssert(e.V == "x", "the entry keeps its line")
					} else {
						elsewhere++
					}
				}
			}
		}
		vsymAssert(elsewhere == 0, "[maporder] an entry never sits in a stream with other labels")
		vsymAssert(inStreams[j] <= 1, "[maporder] no record is returned twice")
	}
	// which records a positive limit keeps: the first `want` IN TIME ORDER
	byTime, byArrival := true, true
	for j := 0; j < N; j++ {
		rank := 0
		for i := 0; i < N; i++ {
			if ts[i] < ts[j] {
				rank++
			}
		}
		if (inStreams[j] == 1) != (rank < want) {
			byTime = false
		}
		if (inStreams[j] == 1) != (j < want) {
			byArrival = false
		}
	}
	if !byTime && byArrival {
		vsymFinding("F25", true, "[maporder] a positive limit keeps the first L records in ARRIVAL order, not in time order: when the storage hands records over out of time order (a container whose stderr line carries an earlier timestamp than the stdout line before it), later records are returned and earlier ones dropped")
		return
	}
	vsymAssert(byTime, "[maporder] a positive limit returns the first min(limit, N) matching records in time order, each once, in the stream carrying exactly its labels")
	vsymReach("C08_group")
}

func VerifHarness_C08_Group_MapOrder_2() { verifC08Group(2, 1) }
func VerifHarness_C08_Group_MapOrder_3() { verifC08Group(3, 1) }

// C08-O2: concrete label sets chosen to be ambiguous under sloppy stream keys
// (name/value boundary, pair boundary, quoting): records share a stream iff
// their label sets are equal.
var verifAmbiguousSets = []map[string]string{
	{"a": "bc"},
	{"ab": "c"},
	{"a": "b", "c": "d"},
	{"a": `b",c="d`},
	{"a": "b,c=d"},
	{},
	{"a": "b", "cd": ""},
	{"a": "", "bcd": ""},
}

func verifC08Ambiguous(N int) {
	var recs []logstorage.Record
	pick := make([]int, N)
	for j := 0; j < N; j++ {
		pick[j] = vsymChoice("set", len(verifAmbiguousSets))
		rec := verifRecord(int64(1000+j), "x", verifAmbiguousSets[pick[j]])
		recs = append(recs, rec)
	}
	cur := 0
	it := &entryIterator{iter: &verifCountingIter{recs: recs, cur: &cur}, prefilter: NopProcessor, pipeline: NopProcessor, limit: -1}
	streams, err := groupEntries(it)
	vsymAssert(err == nil, "grouping succeeds")
	total := 0
	for _, st := range streams {
		total += len(st.Values)
	}
	vsymAssert(total == N, "every record is returned once")
	streamOf := func(j int) int {
		for si, st := range streams {
			for _, e := range st.Values {
				if e.T == uint64(1000+j) {
					return si
				}
			}
		}
		return -1
	}
	for j := 0; j < N; j++ {
		sj := streamOf(j)
		vsymAssert(sj >= 0, "every record sits in a stream")
		want := map[string]string{"msg": "x"}
		for k, v := range verifAmbiguousSets[pick[j]] {
			want[k] = v
		}
		vsymAssert(verifMapEq(streams[sj].Stream.Value, want), "an entry sits in the stream carrying exactly its labels")
		for i := 0; i < j; i++ {
			vsymAssert((streamOf(i) == sj) == (pick[i] == pick[j]), "two records share a stream iff their label sets are equal")
		}
	}
	vsymReach("C08_ambiguous")
}

func VerifHarness_C08_Ambiguous_2() { verifC08Ambiguous(2) }
func VerifHarness_C08_Ambiguous_3() { verifC08Ambiguous(3) }
func VerifHarness_C08_Ambiguous_5() { verifC08Ambiguous(5) }
