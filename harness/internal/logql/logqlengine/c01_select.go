//go:build verif

package logqlengine

import (
	"context"
	"regexp"
	"time"

	"github.com/tdakkota/docker-logql/internal/iterators"
	"github.com/tdakkota/docker-logql/internal/logql"
	"github.com/tdakkota/docker-logql/internal/logstorage"
	"github.com/tdakkota/docker-logql/internal/otelstorage"
)

// stub stage: keeps record j iff keeps[j]; never changes the line.
type verifStubStage struct {
	keeps []bool
	cur   *int
}

func (s *verifStubStage) Process(_ otelstorage.Timestamp, line string, _ LabelSet) (string, bool) {
	return line, s.keeps[*s.cur]
}

// record source that tells the stubs which record is being processed
type verifCountingIter struct {
	recs []logstorage.Record
	n    int
	cur  *int
}

func (i *verifCountingIter) Next(r *logstorage.Record) bool {
	if i.n >= len(i.recs) {
		return false
	}
	*r = i.recs[i.n]
	*i.cur = i.n
	i.n++
	return true
}
func (i *verifCountingIter) Err() error   { return nil }
func (i *verifCountingIter) Close() error { return nil }

// C01-O1 / C08: the record loop emits exactly the records every stage keeps,
// in input order, each once, unchanged, and stops after `limit` (> 0) entries.
func verifC01Loop(N, K int) {
	cur := 0
	var recs []logstorage.Record
	bodies := make([]string, N)
	for j := 0; j < N; j++ {
		bodies[j] = vsymString("body", 2)
		recs = append(recs, logstorage.Record{Timestamp: otelstorage.Timestamp(1000 + j), Body: bodies[j]})
	}
	mkStage := func() *verifStubStage {
		s := &verifStubStage{cur: &cur}
		for j := 0; j < N; j++ {
			s.keeps = append(s.keeps, vsymBool("keep"))
		}
		return s
	}
	pre := mkStage()
	var stages []Processor
	var stubs []*verifStubStage
	for k := 0; k < K; k++ {
		s := mkStage()
		stubs = append(stubs, s)
		stages = append(stages, s)
	}
	limit := vsymInt("limit")
	vsymAssume(limit >= -1)
	vsymAssume(limit <= N+1)
	it := &entryIterator{
		iter:      &verifCountingIter{recs: recs, cur: &cur},
		prefilter: pre,
		pipeline:  &Pipeline{Stages: stages},
		limit:     limit,
	}
	var want []int
	for j := 0; j < N; j++ {
		keep := pre.keeps[j]
		for _, s := range stubs {
			keep = keep && s.keeps[j]
		}
		if keep {
			want = append(want, j)
		}
	}
	if limit > 0 && len(want) > limit {
		want = want[:limit]
	}
	got := 0
	e := entry{set: newLabelSet()}
	for it.Next(&e) {
		vsymAssert(got < len(want), "no record beyond the matching ones (or beyond the limit) is emitted")
		j := want[got]
		vsymAssert(int(e.ts) == 1000+j, "records are emitted in input order, each once, with their own timestamp")
		vsymAssert(e.line == bodies[j], "a filter-only pipeline leaves the line unchanged")
		got++
	}
	vsymAssert(got == len(want), "every matching record (up to the limit) is emitted")
	vsymReach("C01_loop")
}

func VerifHarness_C01_Loop_2x2() { verifC01Loop(2, 2) }
func VerifHarness_C01_Loop_3x2() { verifC01Loop(3, 2) }

// C01-O2: selection end to end below the parser, over a storage back end with
// symbolic capabilities.
func verifRecLabel(rec logstorage.Record, name string) string {
	v, ok := rec.ResourceAttrs.AsMap().Get(name)
	if !ok {
		return ""
	}
	return v.AsString()
}

// verifC01MaxBody bounds the symbolic body length (the matcher-only variants
// do not look at the body).
var verifC01MaxBody = 2

// verifC01WithLimit makes the limit of the query symbolic (C08-O5): records
// arrive in time order here, so a positive limit L keeps the first L MATCHING
// records.
var verifC01WithLimit = false

func verifC01Select(N, M, S int) {
	ops := []logql.BinOp{logql.OpEq, logql.OpNotEq, logql.OpRe, logql.OpNotRe}
	// query
	type mspec struct {
		op logql.BinOp
		v  string
		re int
	}
	var ms []mspec
	var sel logql.Selector
	for i := 0; i < M; i++ {
		m := mspec{op: ops[vsymChoice("mop", 4)], v: vsymString("mval", 1)}
		if m.op == logql.OpRe || m.op == logql.OpNotRe {
			m.re = vsymChoice("mre", 3)
		}
		ms = append(ms, m)
		sel.Matchers = append(sel.Matchers, logql.LabelMatcher{Label: "a", Op: m.op, Value: m.v,
			Re: regexp.MustCompile("^(?:" + verifTableRe[m.re] + ")$")})
	}
	var fs []mspec
	var stages []logql.PipelineStage
	for i := 0; i < S; i++ {
		f := mspec{op: ops[vsymChoice("fop", 4)]}
		if f.op == logql.OpRe || f.op == logql.OpNotRe {
			f.re = vsymChoice("fre", 3)
		} else {
			f.v = vsymString("fval", vsymChoice("fvallen", 2))
		}
		fs = append(fs, f)
		stages = append(stages, &logql.LineFilter{Op: f.op, Value: f.v, Re: regexp.MustCompile(verifTableRe[f.re])})
	}
	// data
	q := &verifQuerier{}
	q.caps.Label = SupportedOps(vsymUint64("labelCaps"))
	q.caps.Line = SupportedOps(vsymUint64("lineCaps"))
	q.applyLine = vsymBool("backendAppliesLine")
	hasA := make([]bool, N)
	valA := make([]string, N)
	bodies := make([]string, N)
	for j := 0; j < N; j++ {
		hasA[j] = vsymBool("hasA")
		valA[j] = vsymString("a", 1)
		// lower-case letters only: the stream key quotes label values, and
		// quoting is judged by C08, not here
		vsymAssume(valA[j][0] >= 'a')
		vsymAssume(valA[j][0] <= 'z')
		bodies[j] = vsymString("body", vsymChoice("bodylen", verifC01MaxBody+1))
		attrs := map[string]string{"z": "z"}
		if hasA[j] {
			attrs["a"] = valA[j]
		}
		q.recs = append(q.recs, verifRecord(int64(1000+j), bodies[j], attrs))
	}
	reOf := func(m logql.LabelMatcher) int {
		for i, t := range verifTableRe {
			if m.Re != nil && m.Re.String() == "^(?:"+t+")$" {
				return i
			}
		}
		return 0
	}
	q.refLabel = func(m logql.LabelMatcher, rec logstorage.Record) bool {
		return verifRefLabelMatch(m.Op, verifRecLabel(rec, string(m.Label)), m.Value, reOf(m))
	}
	q.refLine = func(f logql.LineFilter, rec logstorage.Record) bool {
		ri := 0
		for i, t := range verifTableRe {
			if f.Re != nil && f.Re.String() == t {
				ri = i
			}
		}
		return verifRefLineMatch(f.Op, rec.Body, f.Value, ri)
	}
	e := verifEngine(q)
	limit := -1
	if verifC01WithLimit {
		limit = vsymInt("limit")
		vsymAssume(limit >= -1)
		vsymAssume(limit <= N+1)
	}
	streams, err := e.evalLogExpr(context.Background(), &logql.LogExpr{Sel: sel, Pipeline: stages},
		EvalParams{Start: 1, End: 5000, Step: 0, Limit: limit})
	vsymAssert(err == nil, "a well-formed log query evaluates")
	// reference selection (A.1)
	total := 0
	for j := 0; j < N; j++ {
		cur := ""
		if hasA[j] {
			cur = valA[j]
		}
		selected := true
		for _, m := range ms {
			selected = vsymAnd(selected, verifRefLabelMatch(m.op, cur, m.v, m.re))
		}
		for _, f := range fs {
			selected = vsymAnd(selected, verifRefLineMatch(f.op, bodies[j], f.v, f.re))
		}
		found := 0
		for _, st := range streams {
			for _, en := range st.Values {
				if en.T == uint64(1000+j) {
					found++
					vsymAssert(en.V == bodies[j], "a returned record carries its original line")
				}
			}
		}
		if selected && limit > 0 && total >= limit {
			vsymAssert(found == 0, "a positive limit L returns the first L MATCHING records and no more, whatever the back end offloads")
		} else if selected {
			vsymAssert(found == 1, "every matching record is returned exactly once, whatever the back end offloads")
			total++
		} else {
			vsymAssert(found == 0, "no non-matching record is returned, whatever the back end offloads")
		}
	}
	n := 0
	for _, st := range streams {
		n += len(st.Values)
	}
	vsymAssert(n == total, "the result holds nothing but the matching records")
	vsymReach("C01_select")
}

func VerifHarness_C01_Select_1_1_0() { verifC01Select(1, 1, 0) }

// C08-O5: the limit through the engine (selector matchers and line filters
// evaluated by the engine or by the back end, symbolic capability sets).
func VerifHarness_C08_SelectLimit_2_1_0() {
	verifC01WithLimit, verifC01MaxBody = true, 0
	verifC01Select(2, 1, 0)
}
func VerifHarness_C08_SelectLimit_3_1_0() {
	verifC01WithLimit, verifC01MaxBody = true, 0
	verifC01Select(3, 1, 0)
}
func VerifHarness_C08_SelectLimit_2_1_1() {
	verifC01WithLimit, verifC01MaxBody = true, 1
	verifC01Select(2, 1, 1)
}
func VerifHarness_C08_SelectLimit_3_1_1() {
	verifC01WithLimit, verifC01MaxBody = true, 1
	verifC01Select(3, 1, 1)
}
func VerifHarness_C01_Select_1_0_1() { verifC01Select(1, 0, 1) }
func VerifHarness_C01_Select_1_2_0() { verifC01Select(1, 2, 0) }
func VerifHarness_C01_Select_1_0_2() { verifC01Select(1, 0, 2) }
func VerifHarness_C01_Select_1_1_1() { verifC01Select(1, 1, 1) }
func VerifHarness_C01_Select_2_1_1() { verifC01Select(2, 1, 1) }
func VerifHarness_C01_Select_1_2_2() { verifC01Select(1, 2, 2) }

var _ iterators.Iterator[logstorage.Record] = (*verifCountingIter)(nil)

// two matchers on the same label, empty bodies (matchers do not look at them)
func VerifHarness_C01_Select_1_2_0_NoBody() { verifC01MaxBody = 0; verifC01Select(1, 2, 0) }

// C02-O7: the window the engine hands to the storage for a log query.  A range
// query (a step is given, as the CLI always does) asks for exactly
// [start, end], also when start = end; only an instant query (no step,
// start = end) looks back by the configured duration.
func VerifHarness_C02_EngineWindow() {
	start, end := vsymUint64("start"), vsymUint64("end")
	vsymAssume(start >= 60e9)
	vsymAssume(start <= end)
	vsymAssume(end < 1<<62)
	if vsymBool("point") {
		end = start
	}
	step := []time.Duration{0, time.Second}[vsymChoice("step", 2)]
	q := &verifQuerier{}
	e := verifEngine(q)
	_, err := e.evalLogExpr(context.Background(), &logql.LogExpr{Sel: logql.Selector{Matchers: []logql.LabelMatcher{{Label: "a", Op: logql.OpEq, Value: "x"}}}},
		EvalParams{Start: otelstorage.Timestamp(start), End: otelstorage.Timestamp(end), Step: step, Limit: -1})
	vsymAssert(err == nil && len(q.starts) == 1, "a log query selects once")
	vsymAssert(uint64(q.ends[0]) == end, "the storage is asked up to the end of the query window")
	if step == 0 && start == end {
		vsymAssert(uint64(q.starts[0]) == start-30e9, "an instant query looks back by the default 30s")
	} else {
		vsymAssert(uint64(q.starts[0]) == start, "a range query asks the storage from the start of its window, never a shifted one")
	}
	vsymReach("C02_engine_window")
}

// C01-O9: a stateful stage (distinct) between the selector and a line filter.
// Whether the storage evaluates the line filter itself or leaves it to the
// engine must not change the result: a filter written after distinct must not
// act before it.
func VerifHarness_C01_DistinctThenLineFilter() {
	q := &verifQuerier{}
	q.caps.Line = SupportedOps(vsymUint64("lineCaps"))
	q.applyLine = true
	// three records: label a from {1, 2}, line contains "foo" or not (symbolic)
	N := 3
	aval := make([]string, N)
	hasFoo := make([]bool, N)
	for j := 0; j < N; j++ {
		aval[j] = []string{"1", "2"}[vsymChoice("a", 2)]
		hasFoo[j] = vsymBool("foo")
		body := "bar"
		if hasFoo[j] {
			body = "foo"
		}
		q.recs = append(q.recs, verifRecord(int64(1000+j), body, map[string]string{"a": aval[j]}))
	}
	q.refLine = func(f logql.LineFilter, rec logstorage.Record) bool {
		return verifRefLineMatch(f.Op, rec.Body, f.Value, 0)
	}
	stages := []logql.PipelineStage{
		&logql.DistinctFilter{Labels: []logql.Label{"a"}},
		&logql.LineFilter{Op: logql.OpEq, Value: "foo", Re: regexp.MustCompile("foo")},
	}
	e := verifEngine(q)
	streams, err := e.evalLogExpr(context.Background(), &logql.LogExpr{Sel: logql.Selector{}, Pipeline: stages},
		EvalParams{Start: 1, End: 5000, Step: 0, Limit: -1})
	vsymAssert(err == nil, "the query evaluates")
	// reference: stages in the order written
	seen := map[string]bool{}
	for j := 0; j < N; j++ {
		want := false
		if !seen[aval[j]] {
			seen[aval[j]] = true
			want = hasFoo[j]
		}
		found := 0
		for _, st := range streams {
			for _, en := range st.Values {
				if en.T == uint64(1000+j) {
					found++
				}
			}
		}
		if want {
			vsymAssert(found == 1, "a record that passes the stages in the order written is returned, whatever the back end offloads")
		} else {
			if found != 0 && q.caps.Line.Supports(logql.OpEq) {
				vsymFinding("F39", true, "a line filter written after `distinct` is handed to the storage and so acts BEFORE distinct: with a back end that evaluates `|=` itself, `| distinct a |= \"foo\"` returns a later duplicate whose line matches, without offloading it returns nothing for that value of a")
				return
			}
			vsymAssert(found == 0, "a record dropped by the stages in the order written is not returned, whatever the back end offloads")
		}
	}
	vsymReach("C01_distinct_linefilter")
}
