//go:build verif

package logqlengine

import (
	"regexp"

	"go.opentelemetry.io/collector/pdata/pcommon"

	"github.com/tdakkota/docker-logql/internal/logql"
	"github.com/tdakkota/docker-logql/internal/logstorage"
)

// stage pool for the composition check
func verifStagePool(i int) logql.PipelineStage {
	m := func(label string, op logql.BinOp, v string) logql.LabelMatcher {
		lm := logql.LabelMatcher{Label: logql.Label(label), Op: op, Value: v}
		if op == logql.OpRe || op == logql.OpNotRe {
			lm.Re = regexp.MustCompile("^(?:" + v + ")$")
		}
		return lm
	}
	switch i {
	case 0:
		return &logql.DropLabelsExpr{Labels: []logql.Label{"foo"}}
	case 1:
		return &logql.DropLabelsExpr{Matchers: []logql.LabelMatcher{m("foo", logql.OpEq, "1")}}
	case 2:
		return &logql.DropLabelsExpr{Matchers: []logql.LabelMatcher{m("foo", logql.OpEq, "2")}}
	case 3:
		return &logql.KeepLabelsExpr{Labels: []logql.Label{"foo"}}
	case 4:
		return &logql.KeepLabelsExpr{Matchers: []logql.LabelMatcher{m("bar", logql.OpNotEq, "1")}}
	case 5:
		return &logql.LabelFormatExpr{Labels: []logql.RenameLabel{{Label: "foo", To: "bar"}}}
	case 6:
		return &logql.DistinctFilter{Labels: []logql.Label{"foo"}}
	case 7:
		return &logql.LineFilter{Op: logql.OpEq, Value: "e"}
	case 8:
		return &logql.LineFilter{Op: logql.OpNotEq, Value: "e"}
	case 9:
		lm := m("foo", logql.OpEq, "1")
		return &logql.LabelFilter{Pred: &lm}
	case 10:
		lm := m("bar", logql.OpNotRe, "a|b")
		return &logql.LabelFilter{Pred: &lm}
	default:
		return &logql.DropLabelsExpr{Labels: []logql.Label{"bar"}, Matchers: []logql.LabelMatcher{m("foo", logql.OpNotEq, "2")}}
	}
}

const verifStagePoolSize = 12

func verifCloneSet(s LabelSet) LabelSet {
	c := newLabelSet()
	for k, v := range s.labels {
		nv := pcommon.NewValueEmpty()
		v.CopyTo(nv)
		c.labels[k] = nv
	}
	return c
}

// C07/C19/C01: a pipeline of stages is the sequential composition of its
// stages (first to last, stopping at the first stage that drops the record),
// for every pair/triple of stages from the pool and every short sequence of
// records; fusing, reordering or hoisting stages must not change results.
func verifPipelineComposition(nStages, nRecords int) {
	var asts []logql.PipelineStage
	for i := 0; i < nStages; i++ {
		asts = append(asts, verifStagePool(vsymChoice("stage", verifStagePoolSize)))
	}
	pipe, err := BuildPipeline(asts...)
	vsymAssert(err == nil, "pipeline builds")
	var singles []Processor
	for _, a := range asts {
		p, err := buildStage(a)
		vsymAssert(err == nil, "stage builds")
		singles = append(singles, p)
	}
	pick := func(tag string) string {
		b := vsymByte(tag)
		vsymAssume(vsymOr(vsymOr(b == '1', b == '2'), vsymOr(b == 'a', b == 'e')))
		return string([]byte{b})
	}
	for r := 0; r < nRecords; r++ {
		set := newLabelSet()
		if vsymBool("hasFoo") {
			set.Set("foo", pcommon.NewValueStr(pick("foo")))
		}
		if vsymBool("hasBar") {
			set.Set("bar", pcommon.NewValueStr(pick("bar")))
		}
		line := pick("line")
		s1, s2 := verifCloneSet(set), verifCloneSet(set)
		gotLine, gotKeep := pipe.Process(1, line, s1)
		wantLine, wantKeep := line, true
		for _, p := range singles {
			wantLine, wantKeep = p.Process(1, wantLine, s2)
			if !wantKeep {
				break
			}
		}
		vsymAssert(gotKeep == wantKeep, "a pipeline keeps a record iff every stage, applied in order, keeps it")
		if gotKeep {
			vsymAssert(gotLine == wantLine, "a pipeline yields the line its stages yield in order")
			vsymAssert(verifMapEq(s1.AsMap(), s2.AsMap()), "a pipeline leaves the labels its stages leave in order")
		}
	}
	vsymReach("C07_pipeline_composition")
}

func VerifHarness_C07_PipelineComposition_2x2() { verifPipelineComposition(2, 2) }
func VerifHarness_C07_PipelineComposition_2x3() { verifPipelineComposition(2, 3) }
func VerifHarness_C07_PipelineComposition_3x2() { verifPipelineComposition(3, 2) }

// C07-O3: template glue (template execution itself is a stub).
func VerifHarness_C07_TemplateGlue() {
	set := newLabelSet()
	set.Set("foo", pcommon.NewValueStr(vsymString("foo", 1)))
	line := vsymString("line", 2)
	switch vsymChoice("case", 4) {
	case 0: // literal line_format
		p, err := buildLineFormat(&logql.LineFormat{Template: "hello"})
		vsymAssert(err == nil, "line_format builds")
		out, keep := p.Process(1, line, set)
		vsymAssert(keep && out == "hello" && verifNoErr(set), "line_format replaces the line by the template expansion")
	case 1: // failing template
		p, err := buildLineFormat(&logql.LineFormat{Template: `{{ unixToTime "" }}`})
		vsymAssert(err == nil, "line_format builds")
		out, keep := p.Process(1, line, set)
		vsymAssert(keep, "line_format never drops a line")
		if !verifNoErr(set) {
			vsymAssert(out == line, "a failing template leaves the line unchanged")
		}
	case 2: // label_format with rename and literal template
		p, err := buildLabelFormat(&logql.LabelFormatExpr{
			Labels: []logql.RenameLabel{{Label: "foo", To: "bar"}},
			Values: []logql.LabelTemplate{{Label: "dst", Template: "lit"}},
		})
		vsymAssert(err == nil, "label_format builds")
		out, keep := p.Process(1, line, set)
		vsymAssert(keep && out == line, "label_format never drops or changes the line")
		d, ok := verifGet(set, "dst")
		vsymAssert(ok && d == "lit", "label_format dst=\"template\" sets dst to the expansion")
		_, hasFoo := verifGet(set, "foo")
		_, hasBar := verifGet(set, "bar")
		vsymAssert(!hasFoo && hasBar, "renames of the same stage are applied")
	default: // invalid template text is rejected when the stage is built
		_, err := buildLineFormat(&logql.LineFormat{Template: "{{ .foo "})
		vsymAssert(err != nil, "a malformed template is an error")
	}
	vsymReach("C07_template_glue")
}

// C07-O3b: template binding.  Templates of the simple fragment (literal text,
// {{ .label }}, {{ __line__ }}, {{ __timestamp__.Unix }}, {{ x | fn }} with fn
// a repo function) are evaluated precisely by the engine, FuncMap closures
// included, so what __line__ / __timestamp__ are bound to is followed for
// real: every stage expands over the line and time IT is given, also when the
// same template source is used by several stages or built twice.
func VerifHarness_C07_TemplateBinding() {
	foo := vsymString("foo", 1)
	line := vsymString("line", 2)
	set := newLabelSet()
	set.Set("foo", pcommon.NewValueStr(foo))
	const ts1, ts2 = 1700000001_000000000, 1700000002_000000000
	switch vsymChoice("case", 5) {
	case 0: // the same line template twice in one pipeline
		const tmpl = `[{{ __line__ }}|{{ .foo }}]`
		p, err := BuildPipeline(&logql.LineFormat{Template: tmpl}, &logql.LineFormat{Template: tmpl})
		vsymAssert(err == nil, "pipeline builds")
		out, keep := p.Process(ts1, line, set)
		vsymAssert(keep && verifNoErr(set), "line_format keeps the line and raises no error")
		vsymAssert(out == "[["+line+"|"+foo+"]|"+foo+"]", "the second line_format expands over the first one's output")
	case 1: // the same source built twice, run over different records
		const tmpl = `{{ __timestamp__.Unix }}: {{ __line__ }}`
		a, err := buildLineFormat(&logql.LineFormat{Template: tmpl})
		vsymAssert(err == nil, "line_format builds")
		out, _ := a.Process(ts1, line, set)
		vsymAssert(out == "1700000001: "+line, "__timestamp__ and __line__ are the current record's")
		b, err := buildLineFormat(&logql.LineFormat{Template: tmpl})
		vsymAssert(err == nil, "line_format builds again")
		line2 := vsymString("line2", 1)
		out, _ = b.Process(ts2, line2, set)
		vsymAssert(out == "1700000002: "+line2, "a second instance of the same template is bound to its own record")
		first, _ := a.Process(ts1, line, set)
		out, _ = a.Process(ts2, line2, set)
		vsymAssert(out == "1700000002: "+line2, "an instance is bound to the record of each call")
		// results are collected into streams while the stage goes on to the next record
		vsymAssert(first == "1700000001: "+line, "a line that was returned is not altered by formatting the next record")
	case 2: // label_format templates around a stage that rewrites the line
		stage := func() *logql.LabelFormatExpr {
			return &logql.LabelFormatExpr{Values: []logql.LabelTemplate{{Label: "orig", Template: `{{ .foo }}:{{ __line__ }}`}}}
		}
		p, err := BuildPipeline(stage(), &logql.LineFormat{Template: `rewritten`}, stage())
		vsymAssert(err == nil, "pipeline builds")
		out, keep := p.Process(ts1, line, set)
		vsymAssert(keep && out == "rewritten" && verifNoErr(set), "the line is the line_format's")
		v, ok := verifGet(set, "orig")
		vsymAssert(ok && v == foo+":rewritten", "label_format expands over the line it is given")
	case 3: // a repo function in a pipe, a missing label, a label set by an earlier template
		p, err := BuildPipeline(
			&logql.LabelFormatExpr{Values: []logql.LabelTemplate{{Label: "n", Template: `{{ __timestamp__ | unixEpochNanos }}`}, {Label: "m", Template: `<{{ .missing }}>`}}},
			&logql.LineFormat{Template: `{{ .n }}/{{ .m }}/{{ .foo }}`},
		)
		vsymAssert(err == nil, "pipeline builds")
		out, keep := p.Process(ts1, line, set)
		vsymAssert(keep && verifNoErr(set), "no error")
		vsymAssert(out == "1700000001000000000/<>/"+foo, "templates see the labels of the current record, a missing label expands to nothing")
	default: // a failing function: the line stays, __error__ is set, later templates still run
		p, err := BuildPipeline(
			&logql.LabelFormatExpr{Values: []logql.LabelTemplate{{Label: "bad", Template: `{{ .foo | unixToTime }}`}, {Label: "good", Template: `{{ __line__ }}`}}},
		)
		vsymAssert(err == nil, "pipeline builds")
		out, keep := p.Process(ts1, line, set)
		vsymAssert(keep && out == line, "label_format never drops or changes the line")
		vsymAssert(!verifNoErr(set), "a failing template flags __error__") // a 1-byte value is not a unix timestamp of 5/10/13/16/19 digits
		_, hasBad := verifGet(set, "bad")
		vsymAssert(!hasBad, "a failing template sets no label")
		g, ok := verifGet(set, "good")
		vsymAssert(ok && g == line, "the other templates of the stage are still expanded")
	}
	vsymReach("C07_template_binding")
}

// C08-O3: a formatting stage followed by a failing parser: every entry sits in
// a stream that carries exactly its labels, the error labels included.
func VerifHarness_C08_ErrorLabelsInStreams() {
	stages := []logql.PipelineStage{
		&logql.LineFormat{Template: "{{ .a }}"},
		&logql.JSONExpressionParser{},
	}
	if vsymBool("withDrop") {
		stages = append([]logql.PipelineStage{&logql.DropLabelsExpr{Labels: []logql.Label{"z"}}}, stages...)
	}
	pipe, err := BuildPipeline(stages...)
	vsymAssert(err == nil, "pipeline builds")
	var recs []logstorage.Record
	n := 1 + vsymChoice("records", 2)
	for j := 0; j < n; j++ {
		recs = append(recs, verifRecord(int64(1000+j), "body", map[string]string{"a": "x" + string(rune('0'+j)), "z": "z"}))
	}
	cur := 0
	it := &entryIterator{iter: &verifCountingIter{recs: recs, cur: &cur}, prefilter: NopProcessor, pipeline: pipe, limit: -1}
	streams, err := groupEntries(it)
	vsymAssert(err == nil, "grouping succeeds")
	total := 0
	for _, st := range streams {
		total += len(st.Values)
		e, ok := st.Stream.Value[logql.ErrorLabel]
		vsymAssert(ok && e != "", "a stream of records flagged by a parser carries the __error__ label of its entries")
	}
	vsymAssert(total == n, "every record is returned")
	vsymReach("C08_error_labels")
}

// C07-O5: decolorize removes ANSI colour sequences and nothing else.  Lines
// are assembled from a pool of plain texts (some looking like the inside of a
// sequence) and a pool of colour sequences introduced by ESC or by the 8-bit
// CSI (U+009B); the stage must return the texts alone, and keep the labels.
func VerifHarness_C07_Decolorize() {
	texts := []string{"", "a", "[0m", "m1;31", "plain text;", "\t\n", "é[", "0;x"}
	seqs := []string{"", "\x1b[31m", "\x1b[0m", "\u009b1;31m", "\u009b[32m", "\x1b[1;31;40m", "\x1b[2K", "\x1b]0;title\x07"}
	t0 := texts[vsymChoice("text", len(texts))]
	s1 := seqs[vsymChoice("seq", len(seqs))]
	t1 := texts[vsymChoice("text", len(texts))]
	s2 := seqs[vsymChoice("seq", len(seqs))]
	t2 := texts[vsymChoice("text", len(texts))]
	// (no text contains BEL: after an ESC/CSI introducer it would be read as
	// the end of an operating-system command, which is not judged here)
	line := t0 + s1 + t1 + s2 + t2
	stages, err := BuildPipeline(&logql.DecolorizeExpr{})
	vsymAssert(err == nil, "decolorize builds")
	set := newLabelSet()
	set.Set("foo", pcommon.NewValueStr("\x1b[31mred"))
	out, keep := stages.Process(1, line, set)
	vsymAssert(keep, "decolorize never drops a line")
	vsymAssert(out == t0+t1+t2, "decolorize removes the colour sequences and nothing else")
	v, ok := verifGet(set, "foo")
	vsymAssert(ok && v == "\x1b[31mred" && verifNoErr(set), "decolorize does not touch labels")
	vsymReach("C07_decolorize")
}
