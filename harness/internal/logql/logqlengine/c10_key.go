//go:build verif

package logqlengine

import (
	"regexp"
	"time"

	"go.opentelemetry.io/collector/pdata/pcommon"

	"github.com/tdakkota/docker-logql/internal/iterators"
	"github.com/tdakkota/docker-logql/internal/logql"
	"github.com/tdakkota/docker-logql/internal/logql/logqlengine/logqlmetric"
	"github.com/tdakkota/docker-logql/internal/otelstorage"
)

var verifNamesC10 = []string{"a", "ab", "b", "c"}

func verifLabelSet(names []string, vals []string) LabelSet {
	set := newLabelSet()
	for i, n := range names {
		set.labels[logql.Label(n)] = pcommon.NewValueStr(vals[i])
	}
	return set
}

// C10-O1 / C18-O1: the grouping key of a label set does not depend on the
// order in which the runtime iterates the per-record label map.
func verifC10KeyOrder(n int, maxVal int) {
	names := []string{"a", "b", "c"}[:n]
	vals := make([]string, n)
	for i := range vals {
		vals[i] = vsymString("val", vsymChoice("vallen", maxVal+1))
	}
	set := verifLabelSet(names, vals)
	vsymMapOrderAll()
	k1 := newAggregatedLabels(set, nil, nil).Key()
	k2 := newAggregatedLabels(set, nil, nil).Key()
	vsymMapOrderDefault()
	vsymAssert(k1 == k2, "[maporder] the same label set always gets the same grouping key")
	vsymReach("C10_key_order")
}

func VerifHarness_C10_KeyOrder_MapOrder_2() { verifC10KeyOrder(2, 1) }
func VerifHarness_C10_KeyOrder_MapOrder_3() { verifC10KeyOrder(3, 2) }

// C10-O2: different label sets get different keys (hash assumed injective:
// the hashed byte stream must be uniquely decodable).
func verifC10KeySeparation(maxVal int) {
	na := verifNamesC10[vsymChoice("nameA", len(verifNamesC10))]
	nb := verifNamesC10[vsymChoice("nameB", len(verifNamesC10))]
	va := vsymString("valA", vsymChoice("lenA", maxVal+1))
	vb := vsymString("valB", vsymChoice("lenB", maxVal+1))
	ka := newAggregatedLabels(verifLabelSet([]string{na}, []string{va}), nil, nil).Key()
	kb := newAggregatedLabels(verifLabelSet([]string{nb}, []string{vb}), nil, nil).Key()
	same := vsymAnd(na == nb, va == vb)
	vsymAssert(vsymImplies(same, ka == kb), "equal label sets share a key")
	vsymAssert(vsymImplies(vsymNot(same), ka != kb), "different label sets never share a key")
	vsymReach("C10_key_separation")
}

func VerifHarness_C10_KeySeparation_2() { verifC10KeySeparation(2) }
func VerifHarness_C10_KeySeparation_3() { verifC10KeySeparation(3) }

// C10-O2b: sets of up to two labels (present/absent per name from a pool of
// three names that are prefixes/concatenations of one another).
func verifC10KeySeparationMulti(maxVal int) {
	pool := []string{"a", "ab", "b"}
	build := func(tag string) (LabelSet, []bool, []string) {
		has := make([]bool, len(pool))
		vals := make([]string, len(pool))
		var ns, vs []string
		for i, n := range pool {
			has[i] = vsymChoice(tag+"has", 2) == 1
			if has[i] {
				vals[i] = vsymString(tag+"val", vsymChoice(tag+"len", maxVal+1))
				ns = append(ns, n)
				vs = append(vs, vals[i])
			}
		}
		return verifLabelSet(ns, vs), has, vals
	}
	sa, hasA, valsA := build("A")
	sb, hasB, valsB := build("B")
	ka := newAggregatedLabels(sa, nil, nil).Key()
	kb := newAggregatedLabels(sb, nil, nil).Key()
	same := true
	for i := range pool {
		if hasA[i] != hasB[i] {
			same = false
		} else if hasA[i] {
			same = vsymAnd(same, valsA[i] == valsB[i])
		}
	}
	vsymAssert(vsymImplies(same, ka == kb), "equal label sets share a key")
	vsymAssert(vsymImplies(vsymNot(same), ka != kb), "different label sets never share a key")
	vsymReach("C10_key_separation_multi")
}

func VerifHarness_C10_KeySeparationMulti_1() { verifC10KeySeparationMulti(1) }
func VerifHarness_C10_KeySeparationMulti_2() { verifC10KeySeparationMulti(2) }

// C10-O2c: label sets over the same names whose values are permuted between
// names are different sets and must get different keys (whatever the hash).
func verifC10KeyPermutation(n int) {
	names := []string{"a", "b", "c"}[:n]
	vals := make([]string, n)
	for i := range vals {
		vals[i] = vsymString("val", vsymChoice("len", 2))
	}
	// permutation: rotate by one, or swap the first two
	perm := make([]string, n)
	if vsymChoice("perm", 2) == 0 {
		for i := range perm {
			perm[i] = vals[(i+1)%n]
		}
	} else {
		copy(perm, vals)
		perm[0], perm[1] = perm[1], perm[0]
	}
	same := true
	for i := range vals {
		same = vsymAnd(same, vals[i] == perm[i])
	}
	ka := newAggregatedLabels(verifLabelSet(names, vals), nil, nil).Key()
	kb := newAggregatedLabels(verifLabelSet(names, perm), nil, nil).Key()
	vsymAssert(vsymImplies(vsymNot(same), ka != kb), "which value belongs to which label matters: permuted values are a different series")
	vsymAssert(vsymImplies(same, ka == kb), "equal label sets share a key")
	vsymReach("C10_key_permutation")
}

func VerifHarness_C10_KeyPermutation_2() { verifC10KeyPermutation(2) }
func VerifHarness_C10_KeyPermutation_3() { verifC10KeyPermutation(3) }

// C10-O1b / C18: the same with a grouping given at construction and widened
// afterwards, as nested aggregations do: the key and the visible labels of
// the sample depend on the label set and the grouping only.
func verifC10KeyOrderGrouped() {
	names := []string{"a", "b", "c"}
	vals := make([]string, len(names))
	for i := range vals {
		vals[i] = vsymString("val", vsymChoice("vallen", 2))
	}
	set := verifLabelSet(names, vals)
	var by, without map[string]struct{}
	switch vsymChoice("ctor", 4) {
	case 1:
		by = buildSet[logql.Label](nil, "a")
	case 2:
		by = buildSet[logql.Label](nil, "a", "b")
	case 3:
		without = buildSet[logql.Label](nil, "c")
	}
	widen := vsymChoice("widen", 4)
	build := func() (uint64, map[string]string) {
		var al logqlmetric.AggregatedLabels = newAggregatedLabels(set, by, without)
		switch widen {
		case 1:
			al = al.By("b", "c")
		case 2:
			al = al.Without("b")
		case 3:
			al = al.By("c").By("b")
		}
		return al.Key(), map[string]string(al.AsLokiAPI())
	}
	plain := func() (uint64, map[string]string) {
		al := newAggregatedLabels(set, by, without)
		return al.Key(), map[string]string(al.AsLokiAPI())
	}
	k0, l0 := plain()
	vsymMapOrderAll()
	k1, l1 := build()
	k2, l2 := build()
	vsymMapOrderDefault()
	k3, l3 := plain()
	vsymAssert(k1 == k2, "[maporder] the same label set and grouping always get the same grouping key")
	vsymAssert(verifMapEq(l1, l2), "[maporder] the same label set and grouping always show the same labels")
	// the grouping sets of the query are shared by all its samples: widening one
	// sample's grouping must not change what another sample is
	vsymAssert(k0 == k3 && verifMapEq(l0, l3), "regrouping one sample does not change the identity of another sample of the query")
	vsymReach("C10_key_order_grouped")
}

func VerifHarness_C10_KeyOrderGrouped_MapOrder() { verifC10KeyOrderGrouped() }

// C10-O5: the empty label set has ONE identity.  vector(n) carries the metric
// engine's own empty label set, an aggregation `by (l)` over series without l
// leaves a per-record label set with nothing visible: both are the series {},
// so they must share a grouping key (binary operators join on it).
func VerifHarness_C10_EmptySetKey() {
	t0 := time.Unix(1700000000, 0)
	it, err := logqlmetric.Build(&logql.VectorExpr{Value: 7}, nil, logqlmetric.EvalParams{Start: t0, End: t0, Step: time.Second})
	vsymAssert(err == nil, "vector(7) builds")
	var st logqlmetric.Step
	vsymAssert(it.Next(&st) && len(st.Samples) == 1, "vector(7) yields one series")
	empty := st.Samples[0].Set
	vsymAssert(len(empty.AsLokiAPI()) == 0, "vector(n) has no labels")

	set := verifLabelSet([]string{"a", "b"}, []string{vsymString("val", 1), vsymString("val", 1)})
	var hidden logqlmetric.AggregatedLabels
	switch vsymChoice("how", 3) {
	case 0:
		hidden = newAggregatedLabels(set, buildSet[logql.Label](nil, "nope"), nil)
	case 1:
		hidden = newAggregatedLabels(set, nil, buildSet[logql.Label](nil, "a", "b"))
	default:
		hidden = newAggregatedLabels(set, nil, nil).By("nope")
	}
	vsymAssert(len(hidden.AsLokiAPI()) == 0, "nothing is visible after the grouping")
	if hidden.Key() != empty.Key() {
		vsymFinding("F24", true, "the empty label set has two grouping keys: vector(n) uses 0, a record label set with nothing left after by/without hashes an empty stream to another value, so e.g. `sum by (nope) (count_over_time(...)) + vector(7)` joins nothing and returns an empty result")
		return
	}
	vsymAssert(hidden.Key() == empty.Key() && hidden.Key() == hidden.By("x").Key(), "equal (empty) label sets share one grouping key")
	vsymReach("C10_empty_set_key")
}

// C10-O6: the sample iterator gives every sample the label set of ITS record
// (under the range aggregation's own grouping), whatever the records before
// it carried: consecutive records whose label sets contain one another are
// still distinct series.
func verifC10Sampler(N int) {
	var ents []entry
	hasB := make([]bool, N)
	valB := make([]string, N)
	for j := 0; j < N; j++ {
		set := newLabelSet()
		set.Set("a", pcommon.NewValueStr("x"))
		hasB[j] = vsymBool("hasB")
		valB[j] = vsymString("b", 1)
		if hasB[j] {
			set.Set("b", pcommon.NewValueStr(valB[j]))
		}
		ents = append(ents, entry{ts: otelstorage.Timestamp(1000 + j), line: "line" + string(rune('0'+j)), set: set})
	}
	expr := &logql.RangeAggregationExpr{Op: logql.RangeOpCount}
	grouping := vsymChoice("grouping", 3)
	switch grouping {
	case 1:
		expr.Op = logql.RangeOpAvg
		expr.Range.Unwrap = &logql.UnwrapExpr{Label: "a"}
		expr.Grouping = &logql.Grouping{Labels: []logql.Label{"b"}}
	case 2:
		expr.Op = logql.RangeOpAvg
		expr.Range.Unwrap = &logql.UnwrapExpr{Label: "a"}
		expr.Grouping = &logql.Grouping{Labels: []logql.Label{"a"}, Without: true}
	}
	if grouping != 0 {
		// unwrap needs a number
		for j := range ents {
			ents[j].set.Set("a", pcommon.NewValueStr("1"))
		}
	}
	it, err := newSampleIterator(iterators.Slice(ents), expr)
	vsymAssert(err == nil, "sample iterator builds")
	var s logqlmetric.SampledEntry
	var keys []uint64
	j := 0
	for it.Next(&s) {
		vsymAssert(j < N && uint64(s.Timestamp) == uint64(1000+j), "every record yields one sample, in order, with its timestamp")
		got := map[string]string(s.Set.AsLokiAPI())
		want := map[string]string{}
		if grouping == 0 {
			want["a"] = "x"
		}
		if hasB[j] {
			want["b"] = valB[j]
		}
		vsymAssert(verifMapEq(got, want), "a sample carries the labels of its own record")
		keys = append(keys, s.Set.Key())
		j++
	}
	vsymAssert(j == N, "no record is skipped")
	for p := 0; p < N; p++ {
		for q := 0; q < p; q++ {
			same := hasB[p] == hasB[q] && (!hasB[p] || valB[p] == valB[q])
			if same {
				vsymAssert(keys[p] == keys[q], "equal label sets share a key")
			}
		}
	}
	vsymReach("C10_sampler")
}

func VerifHarness_C10_Sampler_2() { verifC10Sampler(2) }
func VerifHarness_C10_Sampler_3() { verifC10Sampler(3) }

// C18-O6: metric values and the choice among ties do not depend on map
// iteration order.  Three series whose values do not add up associatively
// (1e16, 1, -1e16) are summed by an outer aggregation; the same evaluation is
// done twice under every iteration order of the engine's maps.
func VerifHarness_C18_MetricMapOrder() {
	vals := []float64{1e16, 1, -1e16}
	var in []logqlmetric.SampledEntry
	for j, v := range vals {
		set := newLabelSet()
		set.Set("job", pcommon.NewValueStr("x"))
		set.Set("c", pcommon.NewValueStr("c"+string(rune('0'+j))))
		in = append(in, logqlmetric.SampledEntry{Sample: v, Timestamp: otelstorage.Timestamp(1700000000*1e9 + int64(j)), Set: newAggregatedLabels(set, nil, nil)})
	}
	op := vsymChoice("op", 2)
	inner := &logql.RangeAggregationExpr{Op: logql.RangeOpSum}
	inner.Range.Range = time.Minute
	inner.Range.Unwrap = &logql.UnwrapExpr{Label: "v"}
	outer := &logql.VectorAggregationExpr{Op: logql.VectorOpSum, Expr: inner, Grouping: &logql.Grouping{Labels: []logql.Label{"job"}}}
	if op == 1 {
		// ties: equal values, topk must always pick the same series
		for j := range in {
			in[j].Sample = 1
		}
		k := 1
		outer = &logql.VectorAggregationExpr{Op: logql.VectorOpTopk, Parameter: &k, Expr: inner, Grouping: &logql.Grouping{Labels: []logql.Label{"job"}}}
	}
	t0 := time.Unix(1700000010, 0)
	eval := func() (float64, string) {
		sel := func(*logql.RangeAggregationExpr, time.Time, time.Time) (iterators.Iterator[logqlmetric.SampledEntry], error) {
			return iterators.Slice(in), nil
		}
		it, err := logqlmetric.Build(outer, sel, logqlmetric.EvalParams{Start: t0, End: t0, Step: time.Second})
		vsymAssert(err == nil, "the query builds")
		var st logqlmetric.Step
		vsymAssert(it.Next(&st) && len(st.Samples) == 1, "one series out")
		return st.Samples[0].Data, st.Samples[0].Set.AsLokiAPI()["c"]
	}
	vsymMapOrderAll()
	v1, c1 := eval()
	v2, c2 := eval()
	vsymMapOrderDefault()
	if v1 != v2 || c1 != c2 {
		vsymFinding("F46", true, "[maporder] metric results depend on map iteration order: the range and vector aggregations hand their series on in map order, so a floating-point sum over >= 3 series changes in its last digits from run to run (1e16 + 1 - 1e16 is 0, 1 or 2) and topk picks a different series among ties")
		return
	}
	vsymAssert(v1 == v2 && c1 == c2, "[maporder] repeating the evaluation gives the same value and the same series")
	vsymReach("C18_metric_map_order")
}


// C10-O7: the key follows the label set through an in-place replacement
// (label_replace machinery): after Replace rewrote the value of an existing
// label, Key() is the key of a freshly built set with the new value, also when
// Key() had been asked for before the replacement.
func VerifHarness_C10_KeyAfterReplace() {
	pool := []string{"x-1", "x-2", "y", ""}
	va := pool[vsymChoice("valA", len(pool))]
	vb := pool[vsymChoice("valB", len(pool))]
	agg := newAggregatedLabels(verifLabelSet([]string{"a", "b"}, []string{va, vb}), nil, nil)
	if vsymBool("keyAskedBefore") {
		_ = agg.Key()
	}
	re := regexp.MustCompile(`^(?:(.*)-\d)$`)
	out := agg.Replace("a", "$1", "a", re)
	want := va
	if m := re.FindStringSubmatch(va); m != nil {
		want = m[1]
	}
	fresh := newAggregatedLabels(verifLabelSet([]string{"a", "b"}, []string{want, vb}), nil, nil)
	api := out.AsLokiAPI()
	vsymAssert(api["a"] == want && api["b"] == vb && len(api) == 2, "the replacement rewrites exactly the destination label")
	vsymAssert(out.Key() == fresh.Key(), "equal label sets share a key: the key of a set whose label was rewritten in place is the key of the same set built afresh")
	vsymReach("C10_key_after_replace")
}
