//go:build verif

package logql

import (
	"strconv"

	"github.com/tdakkota/docker-logql/internal/logql/lexer"
)

// C13: operator precedence and associativity.  Token chains
// v1 op1 v2 ... are parsed by the real parser; the resulting tree is compared
// structurally with a textbook precedence-climbing reference (A.8).

type verifOpSpec struct {
	tok   lexer.TokenType
	text  string
	op    BinOp
	prec  int
	right bool
}

var verifOps = []verifOpSpec{
	{lexer.Or, "or", OpOr, 1, false},
	{lexer.And, "and", OpAnd, 2, false},
	{lexer.Unless, "unless", OpUnless, 2, false},
	{lexer.CmpEq, "==", OpEq, 3, false},
	{lexer.NotEq, "!=", OpNotEq, 3, false},
	{lexer.Gt, ">", OpGt, 3, false},
	{lexer.Gte, ">=", OpGte, 3, false},
	{lexer.Lt, "<", OpLt, 3, false},
	{lexer.Lte, "<=", OpLte, 3, false},
	{lexer.Add, "+", OpAdd, 4, false},
	{lexer.Sub, "-", OpSub, 4, false},
	{lexer.Mul, "*", OpMul, 5, false},
	{lexer.Div, "/", OpDiv, 5, false},
	{lexer.Mod, "%", OpMod, 5, false},
	{lexer.Pow, "^", OpPow, 6, true},
}

func verifOpText(op BinOp) string {
	for _, s := range verifOps {
		if s.op == op {
			return s.text
		}
	}
	return "?" + strconv.Itoa(int(op))
}

// verifRender prints the tree the parser returned, fully parenthesised.
func verifRender(e Expr) string {
	switch e := e.(type) {
	case *BinOpExpr:
		return "(" + verifRender(e.Left) + " " + verifOpText(e.Op) + " " + verifRender(e.Right) + ")"
	case *ParenExpr:
		return verifRender(e.X)
	case *VectorExpr:
		return strconv.Itoa(int(e.Value))
	}
	return "<?>"
}

// verifClimb is textbook precedence climbing over atoms[i] ops[i] atoms[i+1]…
// allRight makes every level right-associative (the reference R2 that
// characterises known finding F11).
func verifClimb(atoms []string, ops []verifOpSpec, pos *int, minPrec int, allRight bool) string {
	left := atoms[*pos]
	for *pos < len(ops) && ops[*pos].prec >= minPrec {
		op := ops[*pos]
		*pos++
		next := op.prec + 1
		if op.right || allRight {
			next = op.prec
		}
		right := verifClimb(atoms, ops, pos, next, allRight)
		left = "(" + left + " " + op.text + " " + right + ")"
	}
	return left
}

func verifVectorTokens(v int) []lexer.Token {
	return []lexer.Token{
		{Type: lexer.Vector, Text: "vector"},
		{Type: lexer.OpenParen, Text: "("},
		{Type: lexer.Number, Text: strconv.Itoa(v)},
		{Type: lexer.CloseParen, Text: ")"},
	}
}

// nOps operators; parenAt >= 0 replaces operand parenAt by a parenthesised
// two-operand sub-chain.
func verifC13Chain(nOps int, withParen bool) {
	var tokens []lexer.Token
	var atoms []string
	var ops []verifOpSpec
	parenAt := -1
	if withParen {
		parenAt = vsymChoice("parenAt", nOps+1)
	}
	val := 1
	for i := 0; i <= nOps; i++ {
		if i == parenAt {
			in := verifOps[vsymChoice("innerOp", len(verifOps))]
			tokens = append(tokens, lexer.Token{Type: lexer.OpenParen, Text: "("})
			tokens = append(tokens, verifVectorTokens(val)...)
			tokens = append(tokens, lexer.Token{Type: in.tok, Text: in.text})
			tokens = append(tokens, verifVectorTokens(val+1)...)
			tokens = append(tokens, lexer.Token{Type: lexer.CloseParen, Text: ")"})
			atoms = append(atoms, "("+strconv.Itoa(val)+" "+in.text+" "+strconv.Itoa(val+1)+")")
			val += 2
		} else {
			tokens = append(tokens, verifVectorTokens(val)...)
			atoms = append(atoms, strconv.Itoa(val))
			val++
		}
		if i < nOps {
			o := verifOps[vsymChoice("op", len(verifOps))]
			ops = append(ops, o)
			tokens = append(tokens, lexer.Token{Type: o.tok, Text: o.text})
		}
	}
	p := parser{tokens: tokens}
	expr, err := p.parseExpr()
	vsymAssert(err == nil, "a well-formed operator chain is accepted")
	vsymAssert(p.next().Type == lexer.EOF, "the whole chain is consumed")
	got := verifRender(expr)
	pos := 0
	conv := verifClimb(atoms, ops, &pos, 0, false)
	pos = 0
	r2 := verifClimb(atoms, ops, &pos, 0, true)
	vsymFinding("F11", got != conv && got == r2, "operators of equal precedence group to the right instead of to the left")
	vsymAssert(got == conv || got == r2, "parse tree differs from the conventional reading (and is not the known right-grouping F11)")
	vsymReach("C13_chain")
}

func VerifHarness_C13_Chain_2()      { verifC13Chain(2, false) }
func VerifHarness_C13_Chain_3()      { verifC13Chain(3, false) }
func VerifHarness_C13_Chain_4()      { verifC13Chain(4, false) }
func VerifHarness_C13_ChainParen_2() { verifC13Chain(2, true) }
