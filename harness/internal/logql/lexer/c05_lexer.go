//go:build verif

package lexer

// C05-O5/O6: the keyword/operator table through the real Tokenize
// (text/scanner interpreted from its SSA).

type verifSpelling struct {
	text string
	tt   TokenType
	fn   bool // function-like: needs a following '(' to be that keyword
}

// the LogQL spelling table, written from the language documentation
var verifSpellings = []verifSpelling{
	{",", Comma, false}, {".", Dot, false}, {"{", OpenBrace, false}, {"}", CloseBrace, false},
	{"=", Eq, false}, {"!=", NotEq, false}, {"=~", Re, false}, {"!~", NotRe, false},
	{"|=", PipeExact, false}, {"|~", PipeMatch, false}, {"|", Pipe, false}, {"unwrap", Unwrap, false},
	{"(", OpenParen, false}, {")", CloseParen, false}, {"by", By, false}, {"without", Without, false},
	{"bool", Bool, false}, {"[", OpenBracket, false}, {"]", CloseBracket, false}, {"offset", Offset, false},
	{"on", On, false}, {"ignoring", Ignoring, false}, {"group_left", GroupLeft, false}, {"group_right", GroupRight, false},
	{"or", Or, false}, {"and", And, false}, {"unless", Unless, false},
	{"+", Add, false}, {"-", Sub, false}, {"*", Mul, false}, {"/", Div, false}, {"%", Mod, false}, {"^", Pow, false},
	{"==", CmpEq, false}, {">", Gt, false}, {">=", Gte, false}, {"<", Lt, false}, {"<=", Lte, false},
	{"json", JSON, false}, {"regexp", Regexp, false}, {"logfmt", Logfmt, false}, {"unpack", Unpack, false},
	{"pattern", Pattern, false}, {"label_format", LabelFormat, false}, {"line_format", LineFormat, false},
	{"ip", IP, true}, {"decolorize", Decolorize, false}, {"distinct", Distinct, false}, {"drop", Drop, false}, {"keep", Keep, false},
	{"rate", Rate, true}, {"rate_counter", RateCounter, true}, {"count_over_time", CountOverTime, true},
	{"bytes_rate", BytesRate, true}, {"bytes_over_time", BytesOverTime, true}, {"avg_over_time", AvgOverTime, true},
	{"sum_over_time", SumOverTime, true}, {"min_over_time", MinOverTime, true}, {"max_over_time", MaxOverTime, true},
	{"stdvar_over_time", StdvarOverTime, true}, {"stddev_over_time", StddevOverTime, true},
	{"quantile_over_time", QuantileOverTime, true}, {"first_over_time", FirstOverTime, true},
	{"last_over_time", LastOverTime, true}, {"absent_over_time", AbsentOverTime, true}, {"vector", Vector, true},
	{"sum", Sum, true}, {"avg", Avg, true}, {"max", Max, true}, {"min", Min, true}, {"count", Count, true},
	{"stddev", Stddev, true}, {"stdvar", Stdvar, true}, {"bottomk", Bottomk, true}, {"topk", Topk, true},
	{"sort", Sort, true}, {"sort_desc", SortDesc, true}, {"label_replace", LabelReplace, true},
	{"bytes", BytesConv, true}, {"duration", DurationConv, true}, {"duration_seconds", DurationSecondsConv, true},
}

// O5: every spelling lexes to exactly one token of its type; two-character
// operators are not split; a function name without '(' is an identifier.
func VerifHarness_C05_KeywordTable() {
	sp := verifSpellings[vsymChoice("spelling", len(verifSpellings))]
	text := sp.text
	if sp.fn {
		text += "("
	}
	toks, err := Tokenize(text, TokenizeOptions{})
	vsymAssert(err == nil, "a keyword or operator lexes without error")
	want := 1
	if sp.fn {
		want = 2
	}
	vsymAssert(len(toks) == want, "a keyword or operator is exactly one token (two-character operators are not split)")
	vsymAssert(toks[0].Type == sp.tt && toks[0].Text == sp.text, "the spelling denotes its token type")
	if sp.fn {
		vsymAssert(toks[1].Type == OpenParen, "the parenthesis after a function name is its own token")
		alone, err := Tokenize(sp.text+" x", TokenizeOptions{})
		vsymAssert(err == nil && len(alone) == 2 && alone[0].Type == Ident, "a function name not followed by '(' is an identifier")
	}
	// next to another token, with and without blanks
	for _, sep := range []string{" ", ""} {
		if sep == "" && !(sp.text[0] < 'a' || sp.text[0] > 'z') {
			continue // words need a separator
		}
		both, err := Tokenize(`"s"`+sep+text+sep+`"t"`, TokenizeOptions{})
		vsymAssert(err == nil && len(both) == want+2, "tokens keep their identity between neighbours")
		vsymAssert(both[0].Type == String && both[0].Text == "s" && both[1].Type == sp.tt && both[len(both)-1].Text == "t", "neighbouring string literals are unquoted and intact")
	}
	vsymReach("C05_keyword_table")
}

// O6: insignificant layout: blanks, tabs, newlines and comments between two
// tokens do not change the token sequence.
func verifC05Layout(sepLen int) {
	a := verifSpellings[vsymChoice("a", len(verifSpellings))]
	b := verifSpellings[vsymChoice("b", 14)] // punctuation, operators and parentheses on the right
	sep := vsymString("sep", sepLen)
	for i := 0; i < len(sep); i++ {
		c := sep[i]
		vsymAssume(vsymOr(vsymOr(c == ' ', c == '\t'), vsymOr(c == '\n', c == '\r')))
	}
	ref, err1 := Tokenize(a.text+" "+b.text, TokenizeOptions{})
	got, err2 := Tokenize(a.text+sep+b.text, TokenizeOptions{})
	vsymAssert((err1 == nil) == (err2 == nil), "layout does not change whether the text lexes")
	vsymAssert(len(ref) == len(got), "layout does not change the number of tokens")
	for i := range ref {
		if i < len(got) {
			vsymAssert(ref[i].Type == got[i].Type && ref[i].Text == got[i].Text, "layout does not change the tokens")
		}
	}
	// a comment up to the end of line is layout, too
	withComment, err3 := Tokenize(a.text+" # note "+b.text+"\n"+b.text, TokenizeOptions{})
	vsymAssert((err1 == nil) == (err3 == nil) && len(withComment) == len(ref), "a comment is insignificant")
	for i := range ref {
		if i < len(withComment) && (ref[i].Type != withComment[i].Type || ref[i].Text != withComment[i].Text) {
			if i == 0 && ref[0].Type.IsFunction() && withComment[0].Type == Ident {
				vsymFinding("F28", true, "a comment between a function name and its opening parenthesis (`sum # note` newline `(...)`) turns the function keyword into an identifier: the lexer decides function-or-identifier by the next non-blank character and sees the `#`")
				return
			}
			vsymAssert(false, "a comment does not change the tokens")
		}
	}
	vsymReach("C05_layout")
}

func VerifHarness_C05_Layout_1() { verifC05Layout(1) }
func VerifHarness_C05_Layout_2() { verifC05Layout(2) }

// O7: string literals: a backquoted literal denotes its content verbatim
// (every byte, CR and LF included); a double-quoted literal without escapes
// denotes its content.
func verifC05StringLiteral(n int) {
	content := vsymString("content", 1+vsymChoice("len", n))
	raw := vsymBool("raw")
	for i := 0; i < len(content); i++ {
		c := content[i]
		if raw {
			vsymAssume(c != '`')
			vsymAssume(c != 0) // text/scanner rejects NUL
		} else {
			// printable ASCII without quote and backslash
			vsymAssume(c >= 0x20)
			vsymAssume(c <= 0x7e)
			vsymAssume(c != '"')
			vsymAssume(c != '\\')
		}
		vsymAssume(c < 0x80) // multi-byte runes: outside this obligation
	}
	text := `"` + content + `"`
	if raw {
		text = "`" + content + "`"
	}
	toks, err := Tokenize("|= "+text, TokenizeOptions{})
	vsymAssert(err == nil, "a string literal lexes")
	vsymAssert(len(toks) == 2 && toks[1].Type == String, "a string literal is one String token")
	vsymAssert(toks[1].Text == content, "a string literal denotes exactly its content (backquoted: verbatim, CR and LF included)")
	vsymReach("C05_string_literal")
}

func VerifHarness_C05_StringLiteral_1() { verifC05StringLiteral(1) }
func VerifHarness_C05_StringLiteral_2() { verifC05StringLiteral(2) }

// C05-O9: the token stream of a text depends on that text and on the options
// of THAT call only: the same call made before and after calls with other
// options (dots allowed / not allowed) and other texts gives the same tokens.
func VerifHarness_C05_LexerRepeat() {
	texts := []string{`{service.name="x"}`, `{a="b"} | json x.y="z"`, `rate({a.b=~"c.d"}[1m])`, `a.b.c`}
	t1 := texts[vsymChoice("text", len(texts))]
	t2 := texts[vsymChoice("other", len(texts))]
	dots := vsymBool("dots")
	first, err1 := Tokenize(t1, TokenizeOptions{AllowDots: dots})
	// interleaved calls with the opposite and with the same option
	_, _ = Tokenize(t2, TokenizeOptions{AllowDots: !dots})
	if vsymBool("thirdCall") {
		_, _ = Tokenize(t2, TokenizeOptions{AllowDots: dots})
	}
	again, err2 := Tokenize(t1, TokenizeOptions{AllowDots: dots})
	vsymAssert((err1 == nil) == (err2 == nil), "the same call fails or succeeds the same way whatever was lexed before")
	vsymAssert(len(first) == len(again), "the same call yields the same number of tokens whatever was lexed before")
	for i := range first {
		if i < len(again) {
			vsymAssert(first[i].Type == again[i].Type && first[i].Text == again[i].Text, "the same call yields the same tokens whatever was lexed before (options do not leak between calls)")
		}
	}
	vsymReach("C05_lexer_repeat")
}
