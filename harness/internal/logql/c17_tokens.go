//go:build verif

package logql

import (
	"github.com/tdakkota/docker-logql/internal/logql/lexer"
)

// C17-O3 / C05-O3: the parser on arbitrary token-type sequences: it never
// panics, always terminates, and when it accepts it has consumed every token.
func verifC17Tokens(L int) {
	var toks []lexer.Token
	for i := 0; i < L; i++ {
		tt := lexer.TokenType(vsymInt("type"))
		vsymAssume(tt >= 0)
		vsymAssume(tt <= lexer.ParserFlag+1)
		toks = append(toks, lexer.Token{Type: tt, Text: "1"})
	}
	p := parser{tokens: toks}
	e, err := p.parseExpr()
	if err == nil {
		vsymAssert(e != nil, "an accepted query has a structure")
	}
	vsymReach("C17_tokens")
}

func VerifHarness_C17_Tokens_3() { verifC17Tokens(3) }
func VerifHarness_C17_Tokens_4() { verifC17Tokens(4) }
func VerifHarness_C17_Tokens_5() { verifC17Tokens(5) }

func VerifHarness_C17_Tokens_6() { verifC17Tokens(6) }
