//go:build verif

package logql

// C02-O6: label regexes are compiled fully anchored: `=~ re` is a full match.
func verifC02Anchor(n int) {
	table := []string{"a.*", ".*b", "a|b"}
	ri := vsymChoice("re", len(table))
	re, err := compileLabelRegex(table[ri])
	vsymAssert(err == nil, "a table regex compiles")
	vsymAssert(re.String() == "^(?:"+table[ri]+")$", "the label regex is anchored as ^(?:re)$")
	s := vsymString("s", vsymChoice("len", n+1))
	got := re.MatchString(s)
	want := false
	switch ri {
	case 0:
		if len(s) > 0 {
			want = s[0] == 'a'
			for i := 1; i < len(s); i++ {
				want = vsymAnd(want, s[i] != '\n')
			}
		}
	case 1:
		if len(s) > 0 {
			want = s[len(s)-1] == 'b'
			for i := 0; i < len(s)-1; i++ {
				want = vsymAnd(want, s[i] != '\n')
			}
		}
	default:
		if len(s) == 1 {
			want = vsymOr(s[0] == 'a', s[0] == 'b')
		}
	}
	vsymAssert(got == want, "=~ is a full match: a subject with anything before or after the match does not match")
	// a selector built from text uses it
	sel, err := ParseSelector(`{x=~"a|b"}`, ParseOptions{})
	vsymAssert(err == nil && len(sel.Matchers) == 1 && sel.Matchers[0].Re.String() == "^(?:a|b)$", "selectors compile their regexes anchored")
	vsymReach("C02_anchor")
}

func VerifHarness_C02_Anchor_3() { verifC02Anchor(3) }
