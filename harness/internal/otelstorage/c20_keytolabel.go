//go:build verif

package otelstorage

// C20-O1: KeyToLabel yields a valid LogQL label name for every byte string,
// is the identity on valid names, is idempotent, and replaces exactly the
// offending runes.

func refValidLabel(s string) bool {
	if len(s) == 0 {
		return false
	}
	ok := true
	for i := 0; i < len(s); i++ {
		c := s[i]
		alpha := vsymOr(vsymAnd(c >= 'a', c <= 'z'), vsymAnd(c >= 'A', c <= 'Z'))
		digit := vsymAnd(c >= '0', c <= '9')
		good := vsymOr(c == '_', alpha)
		if i > 0 {
			good = vsymOr(good, digit)
		}
		ok = vsymAnd(ok, good)
	}
	return ok
}

func verifC20KeyToLabel(n int) {
	key := vsymString("key", n)
	out := KeyToLabel(key)
	if n == 0 && out == "" {
		vsymFinding("F47", true, "the empty key is mapped to the empty string, which is not a valid label name (a JSON object with an empty key, or a Docker label with an empty key, yields a label no selector can name); TestKeyToLabel pins {\"\" -> \"\"}")
		return
	}
	vsymAssert(refValidLabel(out), "KeyToLabel(k) is a valid label name")
	vsymAssert(vsymImplies(refValidLabel(key), out == key), "valid names are unchanged")
	out2 := KeyToLabel(out)
	vsymAssert(out2 == out, "KeyToLabel is idempotent")
	// shape: one output byte per input rune (+1 for the digit prefix)
	vsymAssert(len(out) <= len(key)+1, "output is at most one byte longer")
	vsymReach("C20_keytolabel")
}

func VerifHarness_C20_KeyToLabel_0() { verifC20KeyToLabel(0) }
func VerifHarness_C20_KeyToLabel_1() { verifC20KeyToLabel(1) }
func VerifHarness_C20_KeyToLabel_2() { verifC20KeyToLabel(2) }
func VerifHarness_C20_KeyToLabel_3() { verifC20KeyToLabel(3) }
func VerifHarness_C20_KeyToLabel_4() { verifC20KeyToLabel(4) }
func VerifHarness_C20_KeyToLabel_5() { verifC20KeyToLabel(5) }
