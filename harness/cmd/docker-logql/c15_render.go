//go:build verif

package main

import (
	"bytes"
	"strconv"
	"time"

	"github.com/tdakkota/docker-logql/internal/lokiapi"
)

func verifStream(name string, entries ...lokiapi.LogEntry) lokiapi.Stream {
	return lokiapi.Stream{
		Stream: lokiapi.OptLabelSet{Value: lokiapi.LabelSet{"container": name}, Set: true},
		Values: entries,
	}
}

func verifData(streams []lokiapi.Stream) lokiapi.QueryResponseData {
	return lokiapi.QueryResponseData{
		Type:          lokiapi.StreamsResultQueryResponseData,
		StreamsResult: lokiapi.StreamsResult{Result: streams},
	}
}

// C15-O1: rendering succeeds for any number of containers (well above the
// palette size) and all eight option combinations; one line per entry.
func verifC15Any(maxContainers int) {
	n := vsymChoice("containers", maxContainers+1)
	opts := renderOptions{timestamp: vsymBool("timestamp"), container: vsymBool("container"), color: vsymBool("color")}
	var streams []lokiapi.Stream
	for i := 0; i < n; i++ {
		streams = append(streams, verifStream("c"+strconv.Itoa(i),
			lokiapi.LogEntry{T: uint64(1700000000000000000 + i), V: "m" + strconv.Itoa(i)}))
	}
	var buf bytes.Buffer
	err := renderResult(&buf, opts, verifData(streams))
	vsymAssert(err == nil, "rendering succeeds for any number of containers")
	lines := bytes.Count(buf.Bytes(), []byte("\n"))
	vsymAssert(lines == n, "exactly one output line per entry")
	if !opts.color {
		vsymAssert(!bytes.Contains(buf.Bytes(), []byte{0x1b}), "no escape sequence with colour off")
	}
	vsymReach("C15_any")
}

func VerifHarness_C15_Any_12() { verifC15Any(12) }
func VerifHarness_C15_Any_20() { verifC15Any(20) }

// C15-O2: order and shape with the timestamp column off: E entries over two
// containers, symbolic timestamps and message bytes (CR/LF included).
func verifTrim(msg string) string {
	n := len(msg)
	for n > 0 && (msg[n-1] == '\r' || msg[n-1] == '\n') {
		n--
	}
	return msg[:n]
}

func verifC15Order(e int, msgLen int) {
	showName := vsymBool("container")
	opts := renderOptions{timestamp: false, container: showName, color: false}
	type ent struct {
		t    uint64
		line string
	}
	var ents []ent
	var s0, s1 []lokiapi.LogEntry
	for i := 0; i < e; i++ {
		t := vsymUint64("T")
		msg := vsymString("msg", vsymChoice("msglen", msgLen+1))
		inFirst := vsymBool("inFirstStream") // any split of the entries over the two streams, in any order inside a stream
		name := "b"
		if inFirst {
			name = "a"
			s0 = append(s0, lokiapi.LogEntry{T: t, V: msg})
		} else {
			s1 = append(s1, lokiapi.LogEntry{T: t, V: msg})
		}
		line := verifTrim(msg) + "\n"
		if showName {
			line = name + " " + line
		}
		ents = append(ents, ent{t, line})
	}
	var buf bytes.Buffer
	err := renderResult(&buf, opts, verifData([]lokiapi.Stream{verifStream("a", s0...), verifStream("b", s1...)}))
	vsymAssert(err == nil, "rendering succeeds")
	out := vsymStr(buf.Bytes())
	// the output is the concatenation of the entries' lines in some order
	// that is non-decreasing in T (ties may go either way)
	idx := make([]int, e)
	ok := false
	var rec func(k int, used uint)
	rec = func(k int, used uint) {
		if k == e {
			sorted := true
			s := ""
			for j := 0; j < e; j++ {
				if j > 0 {
					sorted = vsymAnd(sorted, ents[idx[j-1]].t <= ents[idx[j]].t)
				}
				s += ents[idx[j]].line
			}
			ok = vsymOr(ok, vsymAnd(sorted, s == out))
			return
		}
		for i := 0; i < e; i++ {
			if used&(1<<uint(i)) == 0 {
				idx[k] = i
				rec(k+1, used|1<<uint(i))
			}
		}
	}
	rec(0, 0)
	vsymAssert(ok, "output = one line per entry ([name ' '] + message without trailing CR/LF + LF), in non-decreasing timestamp order")
	vsymReach("C15_order")
}

func VerifHarness_C15_Order_2() { verifC15Order(2, 2) }
func VerifHarness_C15_Order_3() { verifC15Order(3, 2) }

// C15-O2c: the timestamp column. Instants come from a concrete pool (the
// epoch itself, its neighbours, second boundaries, a present-day instant with
// and without a fraction, the largest instant), any entry may take any pool
// member (ties included); messages are symbolic. Every line carries the
// RFC3339Nano spelling of ITS OWN instant.
var verifStampPool = []uint64{0, 1, 999999999, 1000000000, 1700000000000000000, 1700000000123456789, 1700000000123456790, 9223372036854775807}

func verifC15Stamp(e int, msgLen int) {
	showName := vsymBool("container")
	opts := renderOptions{timestamp: true, container: showName, color: false}
	type ent struct {
		t    uint64
		line string
	}
	var ents []ent
	var s0, s1 []lokiapi.LogEntry
	for i := 0; i < e; i++ {
		t := verifStampPool[vsymChoice("Tpool", len(verifStampPool))]
		msg := vsymString("msg", vsymChoice("msglen", msgLen+1))
		inFirst := vsymBool("inFirstStream")
		name := "b"
		if inFirst {
			name = "a"
			s0 = append(s0, lokiapi.LogEntry{T: t, V: msg})
		} else {
			s1 = append(s1, lokiapi.LogEntry{T: t, V: msg})
		}
		line := time.Unix(0, int64(t)).Format(time.RFC3339Nano) + " " + verifTrim(msg) + "\n"
		if showName {
			line = name + " " + line
		}
		ents = append(ents, ent{t, line})
	}
	var buf bytes.Buffer
	err := renderResult(&buf, opts, verifData([]lokiapi.Stream{verifStream("a", s0...), verifStream("b", s1...)}))
	vsymAssert(err == nil, "rendering succeeds")
	out := vsymStr(buf.Bytes())
	idx := make([]int, e)
	ok := false
	var rec func(k int, used uint)
	rec = func(k int, used uint) {
		if k == e {
			sorted := true
			s := ""
			for j := 0; j < e; j++ {
				if j > 0 {
					sorted = sorted && ents[idx[j-1]].t <= ents[idx[j]].t
				}
				s += ents[idx[j]].line
			}
			if sorted {
				ok = vsymOr(ok, s == out)
			}
			return
		}
		for i := 0; i < e; i++ {
			if used&(1<<uint(i)) == 0 {
				idx[k] = i
				rec(k+1, used|1<<uint(i))
			}
		}
	}
	rec(0, 0)
	vsymAssert(ok, "output = one line per entry ([name ' '] + RFC3339Nano instant of that entry + ' ' + message without trailing CR/LF + LF), in non-decreasing timestamp order")
	vsymReach("C15_stamp")
}

func VerifHarness_C15_Stamp_2() { verifC15Stamp(2, 1) }
func VerifHarness_C15_Stamp_3() { verifC15Stamp(3, 1) }

// C15-O3: colour on: each name is wrapped in one palette colour, used
// consistently per container; timestamp column after the container column.
func verifC15Colour(maxContainers int) {
	n := 1 + vsymChoice("containers", maxContainers)
	withTS := vsymBool("timestamp")
	opts := renderOptions{timestamp: withTS, container: true, color: true}
	var streams []lokiapi.Stream
	for i := 0; i < n; i++ {
		streams = append(streams, verifStream("c"+strconv.Itoa(i),
			lokiapi.LogEntry{T: uint64(1700000000000000000 + 2*i), V: "x"},
			lokiapi.LogEntry{T: uint64(1700000000000000001 + 2*i), V: "y\r\n"}))
	}
	var buf bytes.Buffer
	err := renderResult(&buf, opts, verifData(streams))
	vsymAssert(err == nil, "rendering succeeds with colour on")
	lines := bytes.Split(buf.Bytes(), []byte("\n"))
	vsymAssert(len(lines) == 2*n+1 && len(lines[2*n]) == 0, "one line per entry")
	palette := map[string]bool{}
	for _, name := range names {
		palette["\033["+strconv.Itoa(30+verifIndex(name))+"m"] = true
	}
	seen := map[string]string{}
	for k := 0; k < 2*n; k++ {
		line := string(lines[k])
		ci := k / 2
		name := "c" + strconv.Itoa(ci)
		// ESC [ .. m name ESC [ 0 m ' '
		end := bytes.IndexByte(lines[k], 'm')
		vsymAssert(end > 0 && line[0] == 0x1b, "line starts with a colour sequence")
		col := line[:end+1]
		vsymAssert(palette[col], "colour is a palette member")
		if prev, ok := seen[name]; ok {
			vsymAssert(prev == col, "one colour per container")
		}
		seen[name] = col
		rest := line[end+1:]
		want := name + "\033[0m "
		vsymAssert(len(rest) >= len(want) && rest[:len(want)] == want, "name, reset, blank follow the colour")
		rest = rest[len(want):]
		msg := "x"
		if k%2 == 1 {
			msg = "y"
		}
		if withTS {
			ts := time.Unix(0, int64(1700000000000000000+k)).Format(time.RFC3339Nano)
			wantTS := "\033[34m" + ts + "\033[0m " + msg
			vsymAssert(rest == wantTS, "timestamp column (RFC3339Nano) after the container column, then the message")
		} else {
			vsymAssert(rest == msg, "message with trailing CR/LF trimmed")
		}
	}
	vsymReach("C15_colour")
}

func verifIndex(name string) int {
	for i, n := range names {
		if n == name {
			return i
		}
	}
	return -1
}

func VerifHarness_C15_Colour_7()  { verifC15Colour(7) }
func VerifHarness_C15_Colour_12() { verifC15Colour(12) }

// C15-O3b: several streams may belong to one container (parser stages split a
// container's log into label sets) and arrive in any order: each container
// still gets one palette colour, used for all its lines.
func verifC15ColourStreams(nStreams int) {
	names := []string{"a", "b", "c"}
	var streams []lokiapi.Stream
	owner := map[uint64]string{}
	for i := 0; i < nStreams; i++ {
		name := names[vsymChoice("container", len(names))]
		t := uint64(1700000000000000000 + i)
		owner[t] = name
		st := verifStream(name, lokiapi.LogEntry{T: t, V: "m"})
		st.Stream.Value["level"] = "l" + strconv.Itoa(i) // distinct label sets
		streams = append(streams, st)
	}
	var buf bytes.Buffer
	err := renderResult(&buf, renderOptions{timestamp: false, container: true, color: true}, verifData(streams))
	vsymAssert(err == nil, "rendering succeeds")
	lines := bytes.Split(buf.Bytes(), []byte("\n"))
	vsymAssert(len(lines) == nStreams+1, "one line per entry")
	seen := map[string]string{}
	for k := 0; k < nStreams; k++ {
		line := string(lines[k])
		end := bytes.IndexByte(lines[k], 'm')
		vsymAssert(end > 0 && line[0] == 0x1b, "line starts with a colour sequence")
		col := line[:end+1]
		rest := line[end+1:]
		vsymAssert(len(rest) >= 1, "a name follows the colour")
		name := rest[:1]
		vsymAssert(name == owner[uint64(1700000000000000000+k)], "entries are printed in time order with their container's name")
		if prev, ok := seen[name]; ok {
			vsymAssert(prev == col, "one colour per container, used for all its lines")
		}
		seen[name] = col
	}
	vsymReach("C15_colour_streams")
}

func VerifHarness_C15_ColourStreams_3() { verifC15ColourStreams(3) }
func VerifHarness_C15_ColourStreams_4() { verifC15ColourStreams(4) }
