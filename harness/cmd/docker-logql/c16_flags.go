//go:build verif

package main

import (
	"time"

	"github.com/tdakkota/docker-logql/internal/lokiapi"
)

const (
	verifY2001 = int64(978307200)
	verifY2200 = int64(7258118400)
)

// C16-O1: defaulting of --end, --start, --since.
func VerifHarness_C16_Defaults() {
	nowNs := vsymInt64("now")
	vsymAssume(nowNs >= verifY2001*1e9)
	vsymAssume(nowNs <= verifY2200*1e9)
	now := vsymTimeNs(nowNs)
	var startP, endP lokiapi.OptLokiTime
	var sinceP lokiapi.OptPrometheusDuration
	// explicit values are unix seconds in their decimal spelling
	hasEnd, hasStart := vsymBool("hasEnd"), vsymBool("hasStart")
	endSec, startSec := vsymInt64("endSec"), vsymInt64("startSec")
	vsymAssume(endSec >= verifY2001)
	vsymAssume(endSec <= verifY2200)
	vsymAssume(startSec >= verifY2001)
	vsymAssume(startSec <= verifY2200)
	if hasEnd {
		endP = lokiapi.NewOptLokiTime(lokiapi.LokiTime(vsymDecimal(endSec)))
	}
	if hasStart {
		startP = lokiapi.NewOptLokiTime(lokiapi.LokiTime(vsymDecimal(startSec)))
	}
	since := 6 * time.Hour
	sinceBad := false
	switch vsymChoice("since", 5) {
	case 1:
		sinceP = lokiapi.NewOptPrometheusDuration("1h")
		since = time.Hour
	case 2:
		sinceP = lokiapi.NewOptPrometheusDuration("90m")
		since = 90 * time.Minute
	case 3:
		sinceP = lokiapi.NewOptPrometheusDuration("2d")
		since = 48 * time.Hour
	case 4:
		sinceP = lokiapi.NewOptPrometheusDuration("soon")
		sinceBad = true
	}
	start, end, err := parseTimeRange(now, startP, endP, sinceP)
	if sinceBad {
		vsymAssert(err != nil, "a malformed --since is rejected, not replaced by the default")
		vsymReach("C16_defaults")
		return
	}
	vsymAssert(err == nil, "well-formed flags are accepted")
	wantEnd := nowNs
	if hasEnd {
		wantEnd = endSec * 1e9
	}
	vsymAssert(end.UnixNano() == wantEnd, "--end defaults to now; an explicit value is honoured")
	wantStart := int64(0)
	if hasStart {
		wantStart = startSec * 1e9
	} else {
		base := wantEnd
		if wantEnd > nowNs {
			base = nowNs
		}
		wantStart = base - int64(since)
	}
	vsymAssert(start.UnixNano() == wantStart, "--start defaults to min(end, now) - since (default 6h); an explicit value is honoured")
	vsymReach("C16_defaults")
}

// C16-O2: the seconds and nanoseconds spellings of an instant between 2001
// and 2200 denote that instant; a non-numeric value goes to RFC3339 parsing.
func VerifHarness_C16_Spellings() {
	sec := vsymInt64("sec")
	vsymAssume(sec >= verifY2001)
	vsymAssume(sec <= verifY2200)
	def := vsymTimeNs(5)
	t1, err := parseTimestamp(lokiapi.LokiTime(vsymDecimal(sec)), def)
	vsymAssert(err == nil && t1.UnixNano() == sec*1e9, "unix seconds spelling denotes that instant")
	sub := vsymInt64("nanos")
	vsymAssume(sub >= 0)
	vsymAssume(sub < 1000000000)
	ns := sec*1e9 + sub
	t2, err := parseTimestamp(lokiapi.LokiTime(vsymDecimal(ns)), def)
	vsymAssert(err == nil && t2.UnixNano() == ns, "unix nanoseconds spelling denotes that instant")
	t3, err := parseTimestamp("", def)
	vsymAssert(err == nil && t3.UnixNano() == 5, "an absent value yields the default")
	// concrete spellings of one instant
	for _, s := range []string{"2023-11-14T22:13:20Z", "2023-11-14T22:13:20.000000000Z", "2023-11-15T00:13:20+02:00", "1700000000", "1700000000000000000", "1700000000.000"} {
		t, err := parseTimestamp(lokiapi.LokiTime(s), def)
		vsymAssert(err == nil && t.UnixNano() == 1700000000*1e9, "seconds, nanoseconds, fractional seconds and RFC3339 spellings denote the same instant")
	}
	tf, err := parseTimestamp("1700000000.123", def)
	vsymAssert(err == nil && tf.UnixNano() == 1700000000123000000, "fractional seconds keep their milliseconds")
	// fractions finer than a millisecond denote that instant too, as the nanosecond spelling does
	fine := []struct {
		s  string
		ns int64
	}{{"1700000000.123456789", 1700000000123456789}, {"1700000000.000001", 1700000000000001000}, {"1700000000.9996", 1700000000999600000}, {"1700000000.5", 1700000000500000000},
		// fractions of 4..9 digits whose double, multiplied by 1e9, falls just below the decimal value
		{"1700000000.0321", 1700000000032100000}, {"1700000000.0331", 1700000000033100000}, {"1700000000.1251", 1700000000125100000}, {"1700000000.00401", 1700000000004010000}, {"1700000000.03201", 1700000000032010000}, {"1700000000.03301", 1700000000033010000}, {"1700000000.001004", 1700000000001004000}, {"1700000000.008025", 1700000000008025000}, {"1700000000.066199", 1700000000066199000}, {"1700000000.0020061", 1700000000002006100}, {"1700000000.0080241", 1700000000008024100}, {"1700000000.0661981", 1700000000066198100}, {"1700000000.00100301", 1700000000001003010}, {"1700000000.06419201", 1700000000064192010}, {"1700000000.12738101", 1700000000127381010}, {"1700000000.250752251", 1700000000250752251}, {"1700000000.252758269", 1700000000252758269}, {"1700000000.253761278", 1700000000253761278}}
	for _, f := range fine {
		t, err := parseTimestamp(lokiapi.LokiTime(f.s), def)
		if err == nil && t.UnixNano() != f.ns && (t.UnixNano()-f.ns < 1000000 && f.ns-t.UnixNano() < 1000000) {
			vsymFinding("F33", true, "fractional-second timestamps are quantised to milliseconds: --start=1700000000.123456789 denotes ...123000000, and 1700000000.9996 is moved forward into the next second, while the nanosecond and RFC3339 spellings of the same instants are exact")
			return
		}
		vsymAssert(err == nil && t.UnixNano() == f.ns, "fractional seconds denote that instant, to the nanosecond")
	}
	for _, s := range []string{"yesterday", "2023-13-45", "12:00", "1700000000s"} {
		_, err := parseTimestamp(lokiapi.LokiTime(s), def)
		vsymAssert(err != nil, "a malformed timestamp is rejected")
	}
	vsymReach("C16_spellings")
}

// C16-O3/O4: explicit step: plain seconds or Prometheus duration, strictly
// positive; absent step => default step max(1s, floor((end-start)/250) s).
func VerifHarness_C16_Step() {
	t0 := vsymTimeNs(1700000000 * 1e9)
	switch vsymChoice("form", 6) {
	case 4: // plain seconds that are positive as a number but shorter than the clock's resolution
		tiny := []string{"0.0000000001", "1e-10", "0.0000000009", "4e-324", "0.0", "-0"}
		s := tiny[vsymChoice("tiny", len(tiny))]
		d, err := parseStep(lokiapi.NewOptPrometheusDuration(lokiapi.PrometheusDuration(s)), t0, t0.Add(time.Hour))
		vsymAssert(err != nil || d > 0, "the step in effect is strictly positive, or the flag is rejected")
	case 0: // plain seconds, symbolic
		n := vsymInt64("seconds")
		bound := int64(64)
		if vsymTier() == 1 {
			bound = 512
		}
		vsymAssume(n >= -bound)
		vsymAssume(n <= bound)
		d, err := parseStep(lokiapi.NewOptPrometheusDuration(lokiapi.PrometheusDuration(vsymDecimal(n))), t0, t0.Add(time.Hour))
		vsymFinding("F14", err == nil && d <= 0, "a non-positive explicit --step (plain seconds) is accepted instead of rejected")
		vsymAssert(err != nil || d <= 0 || int64(d) == n*1e9, "plain seconds: the step is that many seconds")
	case 5: // plain seconds with a fraction: that many seconds, to the nanosecond
		fracs := []struct {
			s string
			d time.Duration
		}{{"0.5", 500 * time.Millisecond}, {"1.001", 1001 * time.Millisecond}, {"1.003", 1003 * time.Millisecond}, {"2.5", 2500 * time.Millisecond}, {"0.000000001", 1}, {"33.007", 33007 * time.Millisecond}}
		fs := fracs[vsymChoice("fracstep", len(fracs))]
		d, err := parseStep(lokiapi.NewOptPrometheusDuration(lokiapi.PrometheusDuration(fs.s)), t0, t0.Add(time.Hour))
		if err == nil && d != fs.d && d == fs.d-1 {
			vsymFinding("F35", true, "a --step in plain seconds with a fraction is truncated, not rounded, when converted to nanoseconds: --step=1.001 gives 1000999999 ns, one less than --step=1001ms")
			return
		}
		vsymAssert(err == nil && d == fs.d, "plain seconds with a fraction: the step is that many seconds")
	case 1: // Prometheus durations
		specs := []struct {
			s string
			d time.Duration
		}{{"5s", 5 * time.Second}, {"1m", time.Minute}, {"1h30m", 90 * time.Minute}, {"15s", 15 * time.Second}, {"1d", 24 * time.Hour}}
		sp := specs[vsymChoice("dur", len(specs))]
		d, err := parseStep(lokiapi.NewOptPrometheusDuration(lokiapi.PrometheusDuration(sp.s)), t0, t0.Add(time.Hour))
		vsymAssert(err == nil && d == sp.d, "a Prometheus duration is honoured")
	case 2: // zero / malformed durations
		bad := []string{"0s", "0m", "abc", "5x", "", "1h-30m"}
		s := bad[vsymChoice("bad", len(bad))]
		d, err := parseStep(lokiapi.NewOptPrometheusDuration(lokiapi.PrometheusDuration(s)), t0, t0.Add(time.Hour))
		vsymFinding("F14", err == nil && d <= 0, "a non-positive explicit --step (duration spelling) is accepted instead of rejected")
		vsymAssert(err != nil || d <= 0, "malformed steps are rejected")
	default: // absent: default step
		spans := []struct {
			span time.Duration
			want time.Duration
		}{{0, time.Second}, {249 * time.Second, time.Second}, {250 * time.Second, time.Second}, {499 * time.Second, time.Second},
			{500 * time.Second, 2 * time.Second}, {6 * time.Hour, 86 * time.Second}, {1000 * time.Hour, 14400 * time.Second}}
		sp := spans[vsymChoice("span", len(spans))]
		d, err := parseStep(lokiapi.OptPrometheusDuration{}, t0, t0.Add(sp.span))
		vsymAssert(err == nil && d == sp.want, "the default step is max(1s, floor((end-start)/250) seconds)")
		// bounds with sub-second parts: the step depends on end-start only
		fr := []struct {
			startNs, endNs int64
			want           time.Duration
		}{
			{900000000, 500*1e9 + 100000000, time.Second},         // 499.2s
			{999000000, 500 * 1e9, time.Second},                   // 499.001s
			{100000000, 500*1e9 + 900000000, 2 * time.Second},     // 500.8s
			{500000000, 750*1e9 + 400000000, 2 * time.Second},     // 749.9s
			{1, 250 * 1e9, time.Second},                           // 249.999999999s
			// ranges of years: one nanosecond below a multiple of 250 s must still floor
			{-700000000*1e9 + 1, -600000000 * 1e9, 399999 * time.Second},   // 1e8 s - 1 ns
			{-1700000000*1e9 + 1, -700000000 * 1e9, 3999999 * time.Second}, // 1e9 s - 1 ns
		}
		f := fr[vsymChoice("fraction", len(fr))]
		base := int64(1700000000) * 1e9
		d, err = parseStep(lokiapi.OptPrometheusDuration{}, vsymTimeNs(base+f.startNs), vsymTimeNs(base+f.endNs))
		if err == nil && d == f.want+time.Second && f.want > 1000*time.Second {
			vsymFinding("F34", true, "the default step of a range of years that ends a nanosecond below a multiple of 250 s is one second too large: end-start goes through float64 seconds, which rounds up, before the division by 250")
			return
		}
		vsymAssert(err == nil && d == f.want, "the default step depends on end-start, sub-second parts included")
	}
	vsymReach("C16_step")
}

// C16-O5: the flag layer.  A flag given on the command line, whatever its
// value, reaches the parsers as given: an empty --step or --since is a
// malformed value and is rejected, not silently replaced by the default.
func VerifHarness_C16_FlagLayer() {
	t0 := vsymTimeNs(1700000000 * 1e9)
	step := apiFlagFor[lokiapi.OptPrometheusDuration, *lokiapi.OptPrometheusDuration, lokiapi.PrometheusDuration]("")
	since := apiFlagFor[lokiapi.OptPrometheusDuration, *lokiapi.OptPrometheusDuration, lokiapi.PrometheusDuration]("6h")
	vals := []string{"", "5s", "0", "abc", "15"}
	v := vals[vsymChoice("value", len(vals))]
	given := vsymBool("given")
	if given {
		vsymAssert(step.Set(v) == nil && since.Set(v) == nil, "the flag layer accepts the text; parsing judges it")
	}
	d, err := parseStep(*step.Val, t0, t0.Add(time.Hour))
	switch {
	case !given:
		vsymAssert(err == nil && d == 14*time.Second, "an absent --step means the default step")
	case v == "5s":
		vsymAssert(err == nil && d == 5*time.Second, "an explicit --step is honoured")
	case v == "15":
		vsymAssert(err == nil && d == 15*time.Second, "an explicit --step in plain seconds is honoured")
	default:
		vsymAssert(err != nil, "an empty, zero or malformed --step is rejected rather than replaced by the default")
	}
	_, _, err = parseTimeRange(t0, lokiapi.OptLokiTime{}, lokiapi.OptLokiTime{}, *since.Val)
	switch {
	case !given, v == "5s":
		vsymAssert(err == nil, "an absent or well-formed --since is accepted")
	case v == "", v == "abc":
		vsymAssert(err != nil, "an empty or malformed --since is rejected rather than replaced by the default")
	}
	vsymReach("C16_flag_layer")
}

// C16-O2b: fractional seconds with symbolic digits: "S.DDDDDDDDD" (1..9
// arbitrary decimal digits) denotes S seconds plus exactly that fraction, the
// same instant as the nanosecond spelling.
func verifC16Fraction(nDigits int) {
	def := vsymTimeNs(5)
	digits := vsymString("digits", nDigits)
	var frac int64
	for i := 0; i < nDigits; i++ {
		c := digits[i]
		vsymAssume(vsymAnd(c >= '0', c <= '9'))
		frac = frac*10 + int64(c-'0')
	}
	for i := nDigits; i < 9; i++ {
		frac *= 10
	}
	t, err := parseTimestamp(lokiapi.LokiTime("1700000000."+digits), def)
	vsymAssert(err == nil, "seconds with a fraction are accepted")
	vsymAssert(t.UnixNano() == 1700000000*1e9+frac, "seconds with a fraction denote that instant, to the nanosecond")
	vsymReach("C16_fraction")
}

func VerifHarness_C16_Fraction_3() { verifC16Fraction(3) }
func VerifHarness_C16_Fraction_9() { verifC16Fraction(9) }
