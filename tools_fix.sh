#!/bin/bash
# tools_fix.sh <Fid> <property> "<site>" "<what>" : build+test /repo (already edited), commit with message from stdin, record in known_findings.json
set -e
fid=$1; prop=$2; site=$3; what=$4
cd /repo
export GOFLAGS=-mod=mod GOPROXY=off GOSUMDB=off GOTOOLCHAIN=local
test -z "$(gofmt -l internal cmd)" || { echo "gofmt:"; gofmt -l internal cmd; exit 1; }
go build ./...
bad=$(go test -vet=off -count=1 ./... 2>&1 | grep -v "no test files\|^ok" | head -20)
if [ -n "$bad" ]; then echo "SUITE FAILS:"; echo "$bad"; exit 1; fi
git add -A
git commit -q -F -
h=$(git log --format=%h -1)
python3 - "$fid" "$prop" "$site" "$what" "$h" <<'PY'
import json,sys
fid,prop,site,what,h=sys.argv[1:6]
p='/verif/known_findings.json'
d=json.load(open(p))
d['findings']=[f for f in d['findings'] if f['id']!=fid]
d['findings'].append({"id":fid,"property":prop,"status":"fixed","site":site,"commit":h,"what":what})
d['fixed_log'].append("fixed: property=%s %s %s (%s)"%(prop,h,what.split(';')[0][:160],fid))
json.dump(d,open(p,'w'),indent=1)
print("committed",h)
PY
