#!/bin/bash
# tools_try.sh <seed id> <property> [--only name] [tier]: run a check against a scratch worktree with the seeded patch applied
id=$1; prop=$2; only=${3:-}; tier=${4:-quick}
scratch=$(mktemp -d /tmp/vtry-XXXX); rmdir $scratch
git -C /repo worktree add -q --detach $scratch HEAD || exit 2
(cd $scratch && git apply -3 /verif/seeded/$id/patch.diff >/dev/null 2>&1 && git reset -q)
cd /verif
if [ -n "$only" ]; then
  VERIF_REPO=$scratch timeout 1500 ${VCHECK:-./bin/vcheck} run --property $prop --tier $tier --only "$only" --no-evidence 2>&1 | grep "^VIOLATION\|^  obligation\|^INCONCLUSIVE\|exit=" | cut -c1-280
else
  VERIF_REPO=$scratch timeout 1500 ${VCHECK:-./bin/vcheck} run --property $prop --tier $tier --no-evidence 2>&1 | grep "^VIOLATION\|^  obligation\|^INCONCLUSIVE\|exit=" | cut -c1-280
fi
git -C /repo worktree remove --force $scratch
