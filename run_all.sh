#!/bin/sh
# runs every registered check of the given tier (default quick); prints one line per property
tier=${1:-quick}
cd /verif
for p in $(python3 -c "import json; print(' '.join(c['property_id'] for c in json.load(open('MANIFEST.json'))['checks']))"); do
  start=$(date +%s)
  ./bin/vcheck run --property $p --tier $tier > /tmp/vcheck_$p.log 2>&1
  code=$?
  end=$(date +%s)
  echo "$p exit=$code $((end-start))s $(grep -c '^KNOWN-FINDING' /tmp/vcheck_$p.log) known $(grep -c '^VIOLATION' /tmp/vcheck_$p.log) viol $(grep -c '^INCONCLUSIVE' /tmp/vcheck_$p.log) incon"
done
