#!/bin/sh
# validates MANIFEST.json and every evidence file against the given schemas
python3-vt - <<'PY'
import json, jsonschema, glob
jsonschema.validate(json.load(open('/verif/MANIFEST.json')), json.load(open('/root/.vp/MANIFEST.schema.json')))
print('MANIFEST ok')
s = json.load(open('/root/.vp/EVIDENCE.schema.json'))
for f in sorted(glob.glob('/verif/evidence/*.json')):
    jsonschema.validate(json.load(open(f)), s)
    print('ok', f)
PY
