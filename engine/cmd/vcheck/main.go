// vcheck: bounded symbolic execution of docker-logql's go/ssa + SMT.
package main

import (
	"bytes"
	"encoding/json"
	"flag"
	"fmt"
	"os"
	"os/exec"
	"path/filepath"
	"regexp"
	"sort"
	"strings"
	"time"

	"verif/engine/symexec"
)

const modulePath = "github.com/tdakkota/docker-logql"

type Obligation struct {
	Property    string   `json:"property"`
	Name        string   `json:"name"`
	Pkg         string   `json:"pkg"`  // directory relative to the repo root
	Func        string   `json:"func"` // harness entry point
	Tiers       []string `json:"tiers"`
	Also        []string `json:"also,omitempty"` // other properties this obligation also serves
	Bounds      string   `json:"bounds"`
	Assumptions []string `json:"assumptions,omitempty"`
	Abstract    bool     `json:"abstract_arith,omitempty"`
	MaxPaths    int      `json:"max_paths,omitempty"`
	Oracle      string   `json:"oracle,omitempty"`
	Solver      string   `json:"solver,omitempty"`
}

type KnownFinding struct {
	ID       string `json:"id"`
	Property string `json:"property"`
	Status   string `json:"status"` // open | fixed
	Site     string `json:"site,omitempty"`
	What     string `json:"what"`
	Commit   string `json:"commit,omitempty"`
}

type KnownFile struct {
	Findings []KnownFinding `json:"findings"`
	Fixed    []string       `json:"fixed_log,omitempty"`
}

var (
	verifDir = envOr("VERIF_DIR", "/verif")
	repoDir  = envOr("VERIF_REPO", "/repo")
)

func envOr(k, d string) string {
	if v := os.Getenv(k); v != "" {
		return v
	}
	return d
}

func main() {
	if len(os.Args) < 2 {
		fmt.Fprintln(os.Stderr, "usage: vcheck run|replay|list ...")
		os.Exit(2)
	}
	switch os.Args[1] {
	case "run":
		os.Exit(cmdRun(os.Args[2:]))
	case "replay":
		os.Exit(cmdReplay(os.Args[2:]))
	case "list":
		obs := loadRegistry()
		for _, o := range obs {
			fmt.Printf("%s %-28s %-40s %v\n", o.Property, o.Name, o.Pkg, o.Tiers)
		}
	default:
		fmt.Fprintln(os.Stderr, "unknown command", os.Args[1])
		os.Exit(2)
	}
}

func loadRegistry() []Obligation {
	var obs []Obligation
	files, _ := filepath.Glob(filepath.Join(verifDir, "harness", "registry", "*.json"))
	sort.Strings(files)
	for _, f := range files {
		data, err := os.ReadFile(f)
		if err != nil {
			fatal("registry: %v", err)
		}
		var part []Obligation
		if err := json.Unmarshal(data, &part); err != nil {
			fatal("registry %s: %v", f, err)
		}
		obs = append(obs, part...)
	}
	return obs
}

func loadKnown() KnownFile {
	var k KnownFile
	data, err := os.ReadFile(filepath.Join(verifDir, "known_findings.json"))
	if err != nil {
		return k
	}
	if err := json.Unmarshal(data, &k); err != nil {
		fatal("known_findings.json: %v", err)
	}
	return k
}

func fatal(f string, a ...interface{}) {
	fmt.Fprintf(os.Stderr, f+"\n", a...)
	os.Exit(2)
}

func hasTier(o Obligation, tier string) bool {
	for _, t := range o.Tiers {
		if t == tier {
			return true
		}
	}
	return false
}

// harnessOverlay maps every harness file for pkgDir (plus the generated
// prelude) into the package directory of the repository.
func harnessOverlay(pkgDir string) (map[string][]byte, map[string]string, string, error) {
	src := filepath.Join(verifDir, "harness", pkgDir)
	files, _ := filepath.Glob(filepath.Join(src, "*.go"))
	if len(files) == 0 {
		return nil, nil, "", fmt.Errorf("no harness files in %s", src)
	}
	ov := map[string][]byte{}
	paths := map[string]string{}
	pkgName := ""
	re := regexp.MustCompile(`(?m)^package\s+(\w+)`)
	for _, f := range files {
		data, err := os.ReadFile(f)
		if err != nil {
			return nil, nil, "", err
		}
		if m := re.FindSubmatch(data); m != nil && pkgName == "" {
			pkgName = string(m[1])
		}
		virt := filepath.Join(repoDir, pkgDir, "zz_verif_"+filepath.Base(f))
		ov[virt] = data
		paths[virt] = f
	}
	tmpl, err := os.ReadFile(filepath.Join(verifDir, "harness", "prelude.go.tmpl"))
	if err != nil {
		return nil, nil, "", err
	}
	prelude := bytes.ReplaceAll(tmpl, []byte("PKGNAME"), []byte(pkgName))
	ov[filepath.Join(repoDir, pkgDir, "zz_verif_prelude.go")] = prelude
	return ov, paths, pkgName, nil
}

type oblResult struct {
	O           Obligation
	Res         *symexec.Result
	LoadSec     float64
	Err         string
	Confirmed   []*symexec.Violation
	KnownHit    []*symexec.Violation
	Unconfirmed []*symexec.Violation
}

func cmdRun(args []string) int {
	fs := flag.NewFlagSet("run", flag.ExitOnError)
	prop := fs.String("property", "", "property id")
	tier := fs.String("tier", envOr("VERIF_TIER", "quick"), "quick|thorough")
	only := fs.String("only", "", "run only obligations whose name contains this")
	trace := fs.Bool("trace", false, "print diagnostics")
	workers := fs.Int("workers", 0, "worker count (default: all cores)")
	noReplay := fs.Bool("no-replay", false, "skip native replay (development)")
	noEvidence := fs.Bool("no-evidence", false, "do not write the evidence file")
	fs.Parse(args)
	if *prop == "" {
		fatal("--property required")
	}
	t0 := time.Now()
	known := loadKnown()
	openIDs := []string{}
	openSet := map[string]KnownFinding{}
	for _, k := range known.Findings {
		if k.Status == "open" {
			openIDs = append(openIDs, k.ID)
			openSet[k.ID] = k
		}
	}
	var obs []Obligation
	for _, o := range loadRegistry() {
		match := o.Property == *prop
		for _, a := range o.Also {
			if a == *prop {
				match = true
			}
		}
		if !match || !hasTier(o, *tier) {
			continue
		}
		if *only != "" && !strings.Contains(o.Name, *only) && !strings.Contains(o.Func, *only) {
			continue
		}
		obs = append(obs, o)
	}
	if len(obs) == 0 {
		fatal("no obligations registered for %s tier %s", *prop, *tier)
	}
	// group by package
	byPkg := map[string][]Obligation{}
	var pkgOrder []string
	for _, o := range obs {
		if _, ok := byPkg[o.Pkg]; !ok {
			pkgOrder = append(pkgOrder, o.Pkg)
		}
		byPkg[o.Pkg] = append(byPkg[o.Pkg], o)
	}
	var results []*oblResult
	for _, pkgDir := range pkgOrder {
		tl := time.Now()
		ov, _, _, err := harnessOverlay(pkgDir)
		if err != nil {
			fatal("overlay: %v", err)
		}
		ld, err := symexec.LoadPackage(repoDir, "./"+pkgDir, ov, "verif")
		if err != nil {
			// a tree that does not compile cannot be checked
			fmt.Printf("INCONCLUSIVE property=%s reason=load: %v\n", *prop, err)
			return 2
		}
		loadSec := time.Since(tl).Seconds()
		if *trace {
			fmt.Fprintf(os.Stderr, "loaded %s (%d packages) in %.1fs\n", pkgDir, ld.NumPkg, loadSec)
		}
		for _, o := range byPkg[pkgDir] {
			r := &oblResult{O: o, LoadSec: loadSec}
			results = append(results, r)
			fn := ld.Pkg.Func(o.Func)
			if fn == nil {
				r.Err = "harness function not found: " + o.Func
				continue
			}
			opts := symexec.DefaultOptions()
			opts.Trace = *trace
			opts.AbstractArith = o.Abstract
			if *workers > 0 {
				opts.Workers = *workers
			}
			if o.Solver != "" && os.Getenv("VERIF_SOLVER") == "" {
				opts.SolverKind = o.Solver
			}
			if o.MaxPaths > 0 {
				opts.MaxPaths = o.MaxPaths
			}
			opts.BudgetSeconds = 900
			if *tier == "thorough" {
				opts.Tier = 1
				opts.AssertTimeout = 300000
				opts.BudgetSeconds = 5400
			}
			if v := os.Getenv("VERIF_BUDGET_S"); v != "" {
				fmt.Sscan(v, &opts.BudgetSeconds)
			}
			ex := symexec.NewExplorer(ld.Prog, fn, modulePath, ld.Sizes, opts)
			ex.SetKnown(openIDs)
			r.Res = ex.Run()
			if *trace {
				st := r.Res.Stats
				fmt.Fprintf(os.Stderr, "%s %s: paths=%d ok=%d assume=%d panic=%d queries=%d (%.1fs solver) wall=%.1fs viol=%d incon=%v\n",
					o.Property, o.Name, st.Paths, st.PathsOK, st.PathsAssume, st.PathsPanic, st.Queries, st.SolverSec, st.WallSec, len(r.Res.Violations), r.Res.Inconclusive)
			}
		}
	}
	// replay
	replayDir := filepath.Join(verifDir, "evidence", "replay")
	os.MkdirAll(replayDir, 0o755)
	replays := 0
	for _, r := range results {
		if r.Res == nil {
			continue
		}
		seen := map[string]bool{} // key -> confirmed already
		for n, v := range r.Res.Violations {
			key := v.Key()
			if seen[key] {
				continue
			}
			file := filepath.Join(replayDir, fmt.Sprintf("%s-%s-%d.json", r.O.Property, r.O.Func, n))
			writeReplayFile(file, r.O, v, openIDs, *tier)
			v.File = file
			if *noReplay {
				v.Replayed = "skipped"
				seen[key] = true
				r.Confirmed = append(r.Confirmed, v)
				continue
			}
			out, status := runReplay(file)
			replays++
			v.Replayed = status
			if *trace {
				fmt.Fprintf(os.Stderr, "replay %s: %s\n", file, status)
				if status != "confirmed" {
					fmt.Fprintln(os.Stderr, tail(out, 30))
				}
			}
			if status == "confirmed" {
				seen[key] = true
				if v.Kind == "finding" {
					if _, ok := openSet[v.KnownID]; ok {
						r.KnownHit = append(r.KnownHit, v)
						continue
					}
				}
				r.Confirmed = append(r.Confirmed, v)
			}
		}
		// keys never confirmed
		byKey := map[string]*symexec.Violation{}
		for _, v := range r.Res.Violations {
			if !seen[v.Key()] {
				byKey[v.Key()] = v
			}
		}
		for _, v := range byKey {
			r.Unconfirmed = append(r.Unconfirmed, v)
		}
	}
	// verdict
	exit := 0
	var lines []string
	knownPrinted := map[string]bool{}
	for _, r := range results {
		if r.Err != "" {
			lines = append(lines, fmt.Sprintf("INCONCLUSIVE property=%s obligation=%s reason=%s", *prop, r.O.Name, r.Err))
			if exit == 0 {
				exit = 2
			}
			continue
		}
		for _, v := range r.KnownHit {
			if !knownPrinted[v.KnownID] {
				knownPrinted[v.KnownID] = true
				k := openSet[v.KnownID]
				lines = append(lines, fmt.Sprintf("KNOWN-FINDING: property=%s %s %s (%s; replay=%s)", k.Property, k.ID, k.What, k.Site, v.File))
			}
		}
		for _, v := range r.Confirmed {
			lines = append(lines, fmt.Sprintf("VIOLATION property=%s replay=%s", *prop, v.File))
			lines = append(lines, fmt.Sprintf("  obligation=%s %s: %s model=%v", r.O.Name, v.Kind, v.Msg, v.Model))
			exit = 1
		}
		for _, v := range r.Unconfirmed {
			lines = append(lines, fmt.Sprintf("INCONCLUSIVE property=%s obligation=%s reason=counterexample did not replay natively (%s): %s", *prop, r.O.Name, v.Replayed, v.Msg))
			if exit == 0 {
				exit = 2
			}
		}
		for _, m := range r.Res.Inconclusive {
			lines = append(lines, fmt.Sprintf("INCONCLUSIVE property=%s obligation=%s reason=%s", *prop, r.O.Name, m))
			if exit == 0 {
				exit = 2
			}
		}
		// vacuity: the reach marker must have been hit on a feasible path
		if len(r.Res.Stats.Reach) == 0 && len(r.Confirmed) == 0 && len(r.KnownHit) == 0 {
			lines = append(lines, fmt.Sprintf("INCONCLUSIVE property=%s obligation=%s reason=vacuous: no path reached the end of the harness", *prop, r.O.Name))
			if exit == 0 {
				exit = 2
			}
		}
	}
	for _, l := range lines {
		fmt.Println(l)
	}
	wall := time.Since(t0).Seconds()
	if !*noEvidence && *only == "" {
		writeEvidence(*prop, *tier, results, replays, wall, exit, lines)
	}
	fmt.Printf("%s tier=%s obligations=%d exit=%d wall=%.1fs\n", *prop, *tier, len(results), exit, wall)
	return exit
}

func tail(s string, n int) string {
	ls := strings.Split(strings.TrimRight(s, "\n"), "\n")
	if len(ls) > n {
		ls = ls[len(ls)-n:]
	}
	return strings.Join(ls, "\n")
}

type replayFile struct {
	Property string            `json:"property"`
	Pkg      string            `json:"pkg"`
	Func     string            `json:"func"`
	Kind     string            `json:"kind"`
	Msg      string            `json:"msg"`
	KnownID  string            `json:"known_id,omitempty"`
	Model    map[string]string `json:"model"`
	Known    []string          `json:"known"`
	Tier     string            `json:"tier"`
	Path     []int             `json:"path"`
	Stack    string            `json:"stack,omitempty"`
	Gate     []int             `json:"gate,omitempty"`
}

func writeReplayFile(file string, o Obligation, v *symexec.Violation, known []string, tier string) {
	rf := replayFile{Property: o.Property, Pkg: o.Pkg, Func: o.Func, Kind: v.Kind, Msg: v.Msg, KnownID: v.KnownID,
		Model: v.Model, Known: known, Tier: tier, Path: v.Path, Stack: v.Stack, Gate: v.Gate}
	data, _ := json.MarshalIndent(rf, "", " ")
	os.WriteFile(file, data, 0o644)
}

// runReplay re-executes a counterexample natively against the real build.
func runReplay(file string) (string, string) {
	data, err := os.ReadFile(file)
	if err != nil {
		return err.Error(), "io-error"
	}
	var rf replayFile
	if err := json.Unmarshal(data, &rf); err != nil {
		return err.Error(), "io-error"
	}
	tmp, err := os.MkdirTemp("", "vcheck-replay-")
	if err != nil {
		return err.Error(), "io-error"
	}
	defer os.RemoveAll(tmp)
	_, paths, pkgName, err := harnessOverlay(rf.Pkg)
	if err != nil {
		return err.Error(), "io-error"
	}
	repl := map[string]string{}
	for virt, real := range paths {
		repl[virt] = real
	}
	tmplData, _ := os.ReadFile(filepath.Join(verifDir, "harness", "prelude.go.tmpl"))
	prelude := filepath.Join(tmp, "prelude.go")
	os.WriteFile(prelude, bytes.ReplaceAll(tmplData, []byte("PKGNAME"), []byte(pkgName)), 0o644)
	repl[filepath.Join(repoDir, rf.Pkg, "zz_verif_prelude.go")] = prelude
	test := fmt.Sprintf(`//go:build verif

package %s

import (
	"fmt"
	"testing"
)

func TestVerifReplay(t *testing.T) {
	defer func() {
		if p := recover(); p != nil {
			fmt.Printf("VSYM-REPLAY-PANIC: %%v\n", p)
			t.Fatalf("replay failed: %%v", p)
		}
	}()
	vsymReset()
	%s()
	fmt.Println("VSYM-REPLAY-OK")
}
`, pkgName, rf.Func)
	testFile := filepath.Join(tmp, "replay_test.go")
	os.WriteFile(testFile, []byte(test), 0o644)
	repl[filepath.Join(repoDir, rf.Pkg, "zz_verif_replay_test.go")] = testFile
	ovData, _ := json.Marshal(map[string]interface{}{"Replace": repl})
	ovFile := filepath.Join(tmp, "overlay.json")
	os.WriteFile(ovFile, ovData, 0o644)
	repeat := 1
	if strings.Contains(rf.Msg, "[maporder]") || strings.Contains(rf.Func, "MapOrder") {
		repeat = 300
	}
	testTimeout := "600s"
	if rf.Kind == "hang" {
		testTimeout = "60s" // the harness bounds are tiny: a native run that needs a minute does not terminate
	}
	args := []string{"test", "-tags=verif", "-vet=off", fmt.Sprintf("-count=%d", repeat), "-timeout=" + testTimeout, "-overlay", ovFile, "-run", "^TestVerifReplay$"}
	isRace := strings.Contains(rf.Msg, "[race]")
	if isRace {
		args = append(args, "-race")
	}
	args = append(args, "./"+rf.Pkg)
	cmd := exec.Command("go", args...)
	cmd.Dir = repoDir
	cmd.Env = append(os.Environ(), "GOFLAGS=-mod=mod", "GOPROXY=off", "GOSUMDB=off", "GOTOOLCHAIN=local", "VERIF_REPLAY="+file)
	outB, _ := cmd.CombinedOutput()
	out := string(outB)
	status := "not-reproduced"
	switch {
	case rf.Kind == "hang" && strings.Contains(out, "test timed out"):
		status = "confirmed"
	case rf.Kind == "hang":
		status = "not-reproduced"
	case isRace && strings.Contains(out, "DATA RACE"):
		status = "confirmed"
	case isRace:
		status = "not-reproduced"
	case strings.Contains(out, "VSYM-ASSUME-FAILED"):
		status = "diverged"
	case rf.Kind == "assert" && strings.Contains(out, "VSYM-ASSERT: "+rf.Msg):
		status = "confirmed"
	case rf.Kind == "finding" && strings.Contains(out, "VSYM-FINDING "+rf.KnownID+":"):
		status = "confirmed"
	case rf.Kind == "panic" && strings.Contains(out, "VSYM-REPLAY-PANIC") && !strings.Contains(out, "VSYM-ASSERT") && !strings.Contains(out, "VSYM-FINDING"):
		status = "confirmed"
	case rf.Kind == "panic" && (strings.Contains(out, "panic:") || strings.Contains(out, "fatal error:")) && !strings.Contains(out, "VSYM-"):
		status = "confirmed"
	case strings.Contains(out, "[build failed]") || strings.Contains(out, "[setup failed]"):
		status = "build-failed"
	}
	return out, status
}

func cmdReplay(args []string) int {
	if len(args) < 1 {
		fatal("usage: vcheck replay <file>")
	}
	file, _ := filepath.Abs(args[0])
	out, status := runReplay(file)
	fmt.Println(tail(out, 40))
	fmt.Println("replay:", status)
	if status == "confirmed" {
		return 1
	}
	return 0
}

func writeEvidence(prop, tier string, results []*oblResult, replays int, wall float64, exit int, lines []string) {
	type sample struct {
		Obligation   string            `json:"obligation"`
		Harness      string            `json:"harness"`
		Package      string            `json:"package"`
		Bounds       string            `json:"bounds"`
		Oracle       string            `json:"oracle,omitempty"`
		Paths        int               `json:"paths"`
		Completed    int               `json:"paths_completed"`
		Dropped      int               `json:"paths_dropped_by_assume"`
		Decisions    int64             `json:"decisions"`
		Queries      int               `json:"solver_queries"`
		Sat          int               `json:"sat"`
		Unsat        int               `json:"unsat"`
		Unknown      int               `json:"unknown"`
		AssertQ      int               `json:"assertion_queries"`
		AssertUnsat  int               `json:"assertion_queries_unsat"`
		SolverSec    float64           `json:"solver_seconds"`
		WallSec      float64           `json:"wall_seconds"`
		LoadSec      float64           `json:"load_seconds"`
		Reach        map[string]int    `json:"reach"`
		RepoFuncs    []string          `json:"repo_functions_interpreted"`
		LibFuncs     int               `json:"library_functions_interpreted"`
		Stubs        []string          `json:"models_and_stubs_used"`
		SamplePC     string            `json:"sample_path_condition,omitempty"`
		SampleModel  map[string]string `json:"sample_model,omitempty"`
		Violations   []string          `json:"violations,omitempty"`
		Known        []string          `json:"known_findings_hit,omitempty"`
		Inconclusive []string          `json:"inconclusive,omitempty"`
	}
	var samples []sample
	states, transitions, evals, nontriv, viol := 0, int64(0), 0, 0, 0
	assum := map[string]bool{}
	for _, r := range results {
		if r.Res == nil {
			continue
		}
		st := r.Res.Stats
		solverUsed := r.O.Solver
		if solverUsed == "" || os.Getenv("VERIF_SOLVER") != "" {
			solverUsed = symexec.SolverKind()
		}
		assum["solver for "+r.O.Name+": "+solverUsed] = true
		s := sample{Obligation: r.O.Name, Harness: r.O.Func, Package: r.O.Pkg, Bounds: r.O.Bounds, Oracle: r.O.Oracle,
			Paths: st.Paths, Completed: st.PathsOK, Dropped: st.PathsAssume, Decisions: st.Decisions, Queries: st.Queries,
			Sat: st.Sat, Unsat: st.Unsat, Unknown: st.Unknown, AssertQ: st.AssertChecks, AssertUnsat: st.AssertProved,
			SolverSec: round3(st.SolverSec), WallSec: round3(st.WallSec), LoadSec: round3(r.LoadSec), Reach: st.Reach,
			RepoFuncs: r.Res.RepoFuncs, LibFuncs: len(r.Res.LibFuncs), Stubs: r.Res.Externals,
			SamplePC: r.Res.SamplePC, SampleModel: r.Res.SampleModel, Inconclusive: r.Res.Inconclusive}
		for _, v := range r.Confirmed {
			s.Violations = append(s.Violations, v.Msg+" @ "+v.File)
			viol++
		}
		for _, v := range r.KnownHit {
			s.Known = append(s.Known, v.KnownID+": "+v.Msg)
		}
		samples = append(samples, s)
		states += st.Paths
		transitions += st.Decisions
		evals += st.Queries
		nontriv += st.NontrivPaths
		for _, a := range r.O.Assumptions {
			assum[a] = true
		}
	}
	if transitions == 0 {
		transitions = 1
	}
	var assumptions []string
	for a := range assum {
		assumptions = append(assumptions, a)
	}
	sort.Strings(assumptions)
	assumptions = append(assumptions,
		"the go/ssa form (x/tools v0.29.0, InstantiateGenerics) of the working tree is what is executed; the Go compiler back end is trusted",
		"the engine's instruction semantics (derived from x/tools ssa/interp) and its library models listed per obligation under models_and_stubs_used",
		"solver: "+symexec.SolverKind()+" answers are trusted; every sat answer is replayed natively before it is reported")
	ev := map[string]interface{}{
		"property_id": prop,
		"tier":        tier,
		"seed":        0,
		"level":       "model_checking",
		"wall_s":      round3(wall),
		"violations":  viol,
		"assumptions": assumptions,
		"coverage": map[string]interface{}{
			"states":                        states,
			"transitions":                   transitions,
			"traces_validated_against_impl": replays,
			"evaluations":                   evals,
			"distinct_nontrivial":           nontriv,
			"rule":                          "states = feasible symbolic paths explored (each is a distinct decision sequence, i.e. a distinct class of inputs); transitions = symbolic branch decisions; evaluations = SMT queries; distinct_nontrivial = paths whose path condition mentions a symbolic input and that reached at least one assertion",
			"samples":                       samples,
			"exhaustive":                    exit == 0,
			"explanation":                   "bounded symbolic execution of the repository's SSA; every path within the stated bounds was explored and every assertion discharged by the SMT solver (unsat) or reported",
			"verdict_lines":                 lines,
			"exit":                          exit,
		},
	}
	data, _ := json.MarshalIndent(ev, "", " ")
	os.MkdirAll(filepath.Join(verifDir, "evidence"), 0o755)
	os.WriteFile(filepath.Join(verifDir, "evidence", prop+".json"), append(data, '\n'), 0o644)
}

func round3(f float64) float64 { return float64(int64(f*1000+0.5)) / 1000 }
