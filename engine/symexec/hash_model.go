package symexec

// xxhash: the digest records the byte stream; Sum64 is an uninterpreted
// function H_len(stream).  H is assumed injective (collisions of the real
// 64-bit hash are outside every claim; ambiguity of the hashed stream is
// inside): for every pair of applications on a path the axiom
// H(a) = H(b) => a = b is added to the path condition.

import (
	"fmt"
	"go/types"
)

type nativeHash struct {
	stream []value
}

type hashApp struct {
	bytes []*Term
	out   *Term
}

func hashOf(v value) *nativeHash {
	p, ok := v.(*value)
	if !ok || p == nil {
		panic(nilDeref())
	}
	h, ok := (*p).(*nativeHash)
	if !ok {
		panic(unsupported(fmt.Sprintf("xxhash digest is %T", *p)))
	}
	return h
}

func (x *pathCtx) hashSum(stream []value) value {
	tt := x.tt
	var ts []*Term
	for _, b := range stream {
		ts = append(ts, x.lift(b))
	}
	out := tt.UF(fmt.Sprintf("xxhash_len%d", len(ts)), bvSort(64), ts...)
	// injectivity axioms against earlier applications
	for _, prev := range x.hashApps {
		if prev.out == out {
			return x.lower(out, types.Uint64)
		}
	}
	for _, prev := range x.hashApps {
		if len(prev.bytes) != len(ts) {
			x.assertAxiom(tt.Not(tt.Eq(prev.out, out)))
			continue
		}
		same := tt.Bool(true)
		for i := range ts {
			same = tt.And(same, tt.Eq(prev.bytes[i], ts[i]))
		}
		x.assertAxiom(tt.Or(tt.Not(tt.Eq(prev.out, out)), same))
	}
	x.hashApps = append(x.hashApps, hashApp{ts, out})
	return x.lower(out, types.Uint64)
}

// assertAxiom adds a background fact (not a path decision).
func (x *pathCtx) assertAxiom(t *Term) {
	if c, ok := t.constBool(); ok && c {
		return
	}
	x.solver.Assert(t)
}

func init() {
	externals["github.com/cespare/xxhash/v2.New"] = func(fr *frame, args []value) value {
		cell := value(&nativeHash{})
		return &cell
	}
	externals["(*github.com/cespare/xxhash/v2.Digest).Reset"] = func(fr *frame, args []value) value {
		hashOf(args[0]).stream = nil
		return nil
	}
	externals["(*github.com/cespare/xxhash/v2.Digest).WriteString"] = func(fr *frame, args []value) value {
		h := hashOf(args[0])
		b := strBytes(args[1])
		h.stream = append(h.stream, b...)
		return tuple{len(b), iface{}}
	}
	externals["(*github.com/cespare/xxhash/v2.Digest).Write"] = func(fr *frame, args []value) value {
		h := hashOf(args[0])
		b := args[1].([]value)
		h.stream = append(h.stream, b...)
		return tuple{len(b), iface{}}
	}
	externals["(*github.com/cespare/xxhash/v2.Digest).Sum64"] = func(fr *frame, args []value) value {
		return fr.i.x.hashSum(hashOf(args[0]).stream)
	}
	externals["github.com/cespare/xxhash/v2.Sum64String"] = func(fr *frame, args []value) value {
		return fr.i.x.hashSum(strBytes(args[0]))
	}
	externals["github.com/cespare/xxhash/v2.Sum64"] = func(fr *frame, args []value) value {
		return fr.i.x.hashSum(args[0].([]value))
	}
}
