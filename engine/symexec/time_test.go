package symexec

import (
	"go/types"
	"math/rand"
	"testing"
	"time"
)

// The symbolic Time.Truncate model (concrete duration) agrees with the library.
func TestTruncateModel(t *testing.T) {
	rng := rand.New(rand.NewSource(1))
	ds := []int64{1, 3, 7, 1000, 1e9, 3e9, 60e9, 250e9, 7 * 3600e9, 86400e9}
	for i := 0; i < 4000; i++ {
		ns := rng.Int63n(8e18) - 2e18
		if i%5 == 0 {
			ns = rng.Int63n(1000) - 500
		}
		d := ds[rng.Intn(len(ds))]
		env := map[string]uint64{"ns": uint64(ns)}
		x := &pathCtx{tt: newTermTable(), concolic: env}
		fr := &frame{i: &interpreter{x: x}}
		tv := timeVal{ns: sym{x.tt.Var("ns", bvSort(64)), types.Int64}}
		got := extTimeTruncate(fr, []value{tv, d}).(timeVal)
		g := evalValue(got.ns, env).(int64)
		want := time.Unix(0, ns).UTC().Truncate(time.Duration(d)).UnixNano()
		if g != want {
			t.Fatalf("Truncate(%d, %d): model %d, library %d", ns, d, g, want)
		}
	}
}
