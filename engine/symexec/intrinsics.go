package symexec

// Harness intrinsics: functions named vsym* declared in the harness file
// (with native bodies used for replay) and intercepted here by name.

import (
	"fmt"
	"go/types"
	"strconv"

	"golang.org/x/tools/go/ssa"
)

func (x *pathCtx) newInput(base, kind string, sort Sort) (*InputRec, *Term) {
	name := x.freshName(base)
	t := x.tt.Var(smtName(name), sort)
	in := &InputRec{Name: name, Kind: kind, vars: []*Term{t}}
	x.inputs = append(x.inputs, in)
	x.touchedSym = true
	return in, t
}

func argStr(v value) string {
	s, ok := v.(string)
	if !ok {
		panic(unsupported("intrinsic name/message must be a constant string"))
	}
	return s
}

func boolTerm(x *pathCtx, v value) *Term {
	return x.lift(v)
}

func callIntrinsic(fr *frame, fn *ssa.Function, args []value) value {
	x := fr.i.x
	tt := x.tt
	switch fn.Name() {
	case "vsymInt64":
		_, t := x.newInput(argStr(args[0]), "int64", bvSort(64))
		return sym{t, types.Int64}
	case "vsymInt":
		_, t := x.newInput(argStr(args[0]), "int", bvSort(64))
		return sym{t, types.Int}
	case "vsymInt32":
		_, t := x.newInput(argStr(args[0]), "int32", bvSort(32))
		return sym{t, types.Int32}
	case "vsymUint64":
		_, t := x.newInput(argStr(args[0]), "uint64", bvSort(64))
		return sym{t, types.Uint64}
	case "vsymUint32":
		_, t := x.newInput(argStr(args[0]), "uint32", bvSort(32))
		return sym{t, types.Uint32}
	case "vsymByte":
		_, t := x.newInput(argStr(args[0]), "byte", bvSort(8))
		return sym{t, types.Uint8}
	case "vsymBool":
		_, t := x.newInput(argStr(args[0]), "bool", boolSort)
		return sym{t, types.Bool}
	case "vsymFloat64":
		_, t := x.newInput(argStr(args[0]), "float64", bvSort(64))
		return sym{tt.FPFromBits(t, 64), types.Float64}
	case "vsymBytes", "vsymString":
		n := int(asInt64(args[1]))
		name := x.freshName(argStr(args[0]))
		in := &InputRec{Name: name, Kind: "bytes", N: n}
		b := make([]value, n)
		for k := 0; k < n; k++ {
			t := tt.Var(fmt.Sprintf("%s_b%d", smtName(name), k), bvSort(8))
			in.vars = append(in.vars, t)
			b[k] = sym{t, types.Uint8}
		}
		x.inputs = append(x.inputs, in)
		x.touchedSym = true
		if fn.Name() == "vsymString" {
			return mkStr(b)
		}
		return b
	case "vsymChoice":
		n := asInt64(args[1])
		if n <= 0 {
			panic(unsupported("vsymChoice with n <= 0"))
		}
		_, t := x.newInput(argStr(args[0]), "int", bvSort(64))
		// constrain to [0, n) and case-split
		x.assumeTerm(tt.BVCmp("bvult", t, tt.BV(64, uint64(n))))
		v, ok := x.concretizeInt(sym{t, types.Int}, 0, n-1, "choice "+argStr(args[0]))
		if !ok {
			panic(abortPath{"choice out of range"})
		}
		return int(v)
	case "vsymAssume":
		switch c := args[0].(type) {
		case bool:
			if !c {
				panic(abortPath{"assume false"})
			}
		case sym:
			x.assumeTerm(c.t)
		}
		return nil
	case "vsymAssert":
		x.assertProp(args[0], argStr(args[1]), "", fr)
		return nil
	case "vsymFinding":
		// vsymFinding(id, manifests, msg): `manifests` true means the known
		// defect <id> shows on these inputs.
		id := argStr(args[0])
		x.assertProp(x.not(args[1]), argStr(args[2]), id, fr)
		return nil
	case "vsymReach":
		x.reach = append(x.reach, argStr(args[0]))
		return nil
	case "vsymAnd":
		return x.and(args[0], args[1])
	case "vsymOr":
		return x.or(args[0], args[1])
	case "vsymNot":
		return x.not(args[0])
	case "vsymImplies":
		return x.or(x.not(args[0]), args[1])
	case "vsymIteInt", "vsymIteInt64", "vsymIteByte", "vsymIteBool", "vsymIteFloat64":
		c := args[0]
		if cb, ok := c.(bool); ok {
			if cb {
				return args[1]
			}
			return args[2]
		}
		k, _ := kindOfValue(args[1])
		if s, ok := args[1].(sym); ok {
			k = s.k
		} else if s, ok := args[2].(sym); ok {
			k = s.k
		}
		return x.lower(tt.Ite(c.(sym).t, x.lift(args[1]), x.lift(args[2])), k)
	case "vsymMapOrderAll":
		x.mapOrderAll = true
		return nil
	case "vsymMapOrderDefault":
		x.mapOrderAll = false
		return nil
	case "vsymSchedAll":
		x.schedAll = true
		return nil
	case "vsymAbstractArith":
		x.abstractArith = args[0].(bool)
		return nil
	case "vsymKnown":
		return x.ex.known[argStr(args[0])]
	case "vsymConcrete":
		lo, hi := asInt64(args[1]), asInt64(args[2])
		v, ok := x.concretizeInt(args[0], lo, hi, "vsymConcrete")
		if !ok {
			panic(abortPath{"vsymConcrete out of range"})
		}
		return int(v)
	case "vsymGate", "vsymGateDone":
		return nil
	case "vsymDrain":
		// let every goroutine that is still pending run to completion
		x.drainGoroutines(fr.i)
		return nil
	case "vsymTier":
		return x.ex.opts.Tier
	case "vsymSymbolic":
		return true
	case "vsymStr":
		// vsymStr(b []byte) string : reinterpretation without copy semantics concerns
		return mkStr(append([]value{}, args[0].([]value)...))
	case "vsymSameFloat":
		// bit-for-bit "same number": equal, or both NaN; identical terms are
		// the same without asking the solver
		a, b := args[0], args[1]
		if sa, ok := a.(sym); ok {
			if sb, ok := b.(sym); ok && sa.t == sb.t {
				return true
			}
		}
		ta, tb := x.lift(a), x.lift(b)
		return x.lower(tt.Or(tt.FCmp("fp.eq", ta, tb), tt.And(tt.FIsNaN(ta), tt.FIsNaN(tb))), types.Bool)
	case "vsymDecimal":
		if c, ok := args[0].(int64); ok {
			return strconv.FormatInt(c, 10)
		}
		return numStr{args[0]}
	case "vsymTimeNs":
		// vsymTimeNs(ns int64) time.Time
		return timeVal{ns: args[0]}
	}
	panic(unsupported("unknown intrinsic " + fn.Name()))
}

// assumeTerm adds c to the path condition, dropping the path when that makes
// it infeasible.
func (x *pathCtx) assumeTerm(c *Term) {
	if b, ok := c.constBool(); ok {
		if !b {
			panic(abortPath{"assume false"})
		}
		return
	}
	if len(x.decisions) < len(x.prefix) {
		// replaying a prefix known to be feasible
		x.assertPC(c)
		return
	}
	r, _, note := x.solver.Check([]*Term{c}, x.ex.opts.FeasTimeoutMs, false)
	if note != "" {
		x.ex.noteInconclusive("solver: " + note)
	}
	if r == Unsat {
		panic(abortPath{"assume infeasible"})
	}
	x.assertPC(c)
}

// assertProp checks the property c on the current path.
func (x *pathCtx) assertProp(c value, msg, knownID string, fr *frame) {
	x.assertsSeen++
	kind := "assert"
	if knownID != "" {
		kind = "finding"
	}
	stack := ""
	if fr != nil && fr.caller != nil && fr.caller.cur != nil {
		stack = fr.i.prog.Fset.Position(fr.caller.cur.Pos()).String()
	}
	switch c := c.(type) {
	case bool:
		x.ex.mu.Lock()
		x.ex.res.Stats.AssertConcrete++
		x.ex.mu.Unlock()
		if !c {
			x.violation(kind, msg, knownID, nil, stack)
			if kind != "finding" {
				panic(assertStop{msg})
			}
		}
	case sym:
		neg := x.tt.Not(c.t)
		x.ex.mu.Lock()
		x.ex.res.Stats.AssertChecks++
		x.ex.mu.Unlock()
		r, _, note := x.solver.Check([]*Term{neg}, x.ex.opts.AssertTimeout, false)
		switch r {
		case Unsat:
			x.ex.mu.Lock()
			x.ex.res.Stats.AssertProved++
			x.ex.mu.Unlock()
			// c is implied; no need to add it
			return
		case Sat:
			x.violation(kind, msg, knownID, neg, stack)
		default:
			x.ex.noteInconclusive(fmt.Sprintf("assertion %q: solver %v %s", msg, r, note))
		}
		// continue under the assumption that the assertion held
		r2, _, _ := x.solver.Check([]*Term{c.t}, x.ex.opts.FeasTimeoutMs, false)
		if r2 == Unsat {
			panic(assertStop{msg})
		}
		x.assertPC(c.t)
	default:
		panic(fmt.Sprintf("assert on %T", c))
	}
}
