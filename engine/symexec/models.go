package symexec

// Environment models: functions outside the module under test that are not
// interpreted from their SSA (assembly, unsafe, runtime, reflection-heavy
// formatting) or that get a precise symbolic model (time, bytealg, sync).

import (
	"fmt"
	"go/token"
	"go/types"
	"math"
	"math/big"
	"strconv"
	"strings"
	"sync"
	"time"
	"unicode/utf8"
	"unsafe"

	"golang.org/x/tools/go/ssa"
)

type externalFn func(fr *frame, args []value) value

var externals = map[string]externalFn{}

func lookupExternal(fn *ssa.Function, name string) externalFn {
	if e, ok := externals[name]; ok {
		return e
	}
	if strings.HasPrefix(name, "unique.Make[") {
		return extUniqueMake
	}
	return nil
}

// unique.Make: one canonical pointer per distinct (concrete) value.
func extUniqueMake(fr *frame, args []value) value {
	if containsSym(args[0]) {
		panic(unsupported("unique.Make of a symbolic value"))
	}
	x := fr.i.x
	if x.uniques == nil {
		x.uniques = map[interface{}]*value{}
	}
	k := concreteKey(args[0])
	p, ok := x.uniques[k]
	if !ok {
		cell := args[0]
		p = &cell
		x.uniques[k] = p
	}
	return structure{p}
}

func init() {
	nop := func(fr *frame, args []value) value { return nil }
	for k, v := range map[string]externalFn{
		// runtime
		"runtime.GC":                                nop,
		"runtime.Gosched":                           nop,
		"runtime.KeepAlive":                         nop,
		"runtime.SetFinalizer":                      nop,
		"runtime.Callers":                           func(fr *frame, args []value) value { return 0 },
		"runtime.Caller":                            func(fr *frame, args []value) value { return tuple{uintptr(0), "", 0, false} },
		"runtime.NumCPU":                            func(fr *frame, args []value) value { return 1 },
		"runtime.GOMAXPROCS":                        func(fr *frame, args []value) value { return 1 },
		"internal/abi.NoEscape":                     func(fr *frame, args []value) value { return args[0] },
		"internal/abi.Escape":                       func(fr *frame, args []value) value { return args[0] },
		"internal/race.Enabled":                     nop,
		"os.Getenv":                                 func(fr *frame, args []value) value { return "" },
		"os.LookupEnv":                              func(fr *frame, args []value) value { return tuple{"", false} },
		"internal/godebug.(*Setting).Value":         func(fr *frame, args []value) value { return "" },
		"internal/godebug.(*Setting).IncNonDefault": nop,

		// sync
		"(*sync.Mutex).Lock": func(fr *frame, args []value) value { fr.i.x.locked++; return nil },
		"(*sync.Mutex).Unlock": func(fr *frame, args []value) value {
			if fr.i.x.locked > 0 {
				fr.i.x.locked--
			}
			return nil
		},
		"(*sync.Mutex).TryLock":   func(fr *frame, args []value) value { return true },
		"(*sync.RWMutex).Lock":    nop,
		"(*sync.RWMutex).Unlock":  nop,
		"(*sync.RWMutex).RLock":   nop,
		"(*sync.RWMutex).RUnlock": nop,
		"(*sync.WaitGroup).Add":   nop,
		"(*sync.WaitGroup).Done":  nop,
		"(*sync.WaitGroup).Wait": func(fr *frame, args []value) value {
			fr.i.x.drainGoroutines(fr.i)
			return nil
		},
		"(*sync.Once).Do": extOnceDo,

		// sync/atomic
		"sync/atomic.LoadUint32":            atomicLoad,
		"sync/atomic.LoadInt32":             atomicLoad,
		"sync/atomic.LoadUint64":            atomicLoad,
		"sync/atomic.LoadInt64":             atomicLoad,
		"sync/atomic.LoadPointer":           atomicLoad,
		"sync/atomic.LoadUintptr":           atomicLoad,
		"sync/atomic.StoreUint32":           atomicStore,
		"sync/atomic.StoreInt32":            atomicStore,
		"sync/atomic.StoreUint64":           atomicStore,
		"sync/atomic.StoreInt64":            atomicStore,
		"sync/atomic.StorePointer":          atomicStore,
		"sync/atomic.StoreUintptr":          atomicStore,
		"sync/atomic.AddInt32":              atomicAdd,
		"sync/atomic.AddUint32":             atomicAdd,
		"sync/atomic.AddInt64":              atomicAdd,
		"sync/atomic.AddUint64":             atomicAdd,
		"sync/atomic.CompareAndSwapInt32":   atomicCAS,
		"sync/atomic.CompareAndSwapUint32":  atomicCAS,
		"sync/atomic.CompareAndSwapInt64":   atomicCAS,
		"sync/atomic.CompareAndSwapUint64":  atomicCAS,
		"sync/atomic.CompareAndSwapPointer": atomicCAS,

		// math
		"math.Float64bits":     extFloat64bits,
		"math.Float64frombits": extFloat64frombits,
		"math.Float32bits":     func(fr *frame, args []value) value { return math.Float32bits(args[0].(float32)) },
		"math.Float32frombits": func(fr *frame, args []value) value { return math.Float32frombits(args[0].(uint32)) },
		"math.IsNaN":           extIsNaN,
		"math.IsInf":           extIsInf,
		"math.NaN":             func(fr *frame, args []value) value { return math.NaN() },
		"math.Inf":             func(fr *frame, args []value) value { return math.Inf(int(asInt64(args[0]))) },
		"math.Abs":             mathAbs,
		"math.Floor":           mathRound("RTN", math.Floor),
		"math.Ceil":            mathRound("RTP", math.Ceil),
		"math.Trunc":           mathRound("RTZ", math.Trunc),
		"math.Round":           mathRound("RNA", math.Round),
		"math.Sqrt":            mathUF1("Sqrt", math.Sqrt),
		"math.Log":             mathUF1("Log", math.Log),
		"math.Log2":            mathUF1("Log2", math.Log2),
		"math.Log10":           mathUF1("Log10", math.Log10),
		"math.Exp":             mathUF1("Exp", math.Exp),
		"math.Pow":             mathUF2("Pow", math.Pow),
		"math.Mod":             mathUF2("Mod", math.Mod),
		"math.Max":             mathUF2("Max", math.Max),
		"math.Min":             mathUF2("Min", math.Min),
		"math.Modf": func(fr *frame, args []value) value {
			a, b := math.Modf(concFloat(args[0], "math.Modf"))
			return tuple{a, b}
		},

		// bytealg / strings / bytes
		"internal/bytealg.IndexByte":           extIndexByte,
		"internal/bytealg.IndexByteString":     extIndexByte,
		"internal/bytealg.LastIndexByte":       extLastIndexByte,
		"internal/bytealg.LastIndexByteString": extLastIndexByte,
		"internal/bytealg.Index":               extIndex,
		"internal/bytealg.IndexString":         extIndex,
		"internal/bytealg.Equal":               extBytesEqual,
		"internal/bytealg.Compare":             extCompare,
		"internal/bytealg.CompareString":       extCompare,
		"internal/bytealg.Count":               extCount,
		"internal/bytealg.CountString":         extCount,
		"internal/bytealg.MakeNoZero": func(fr *frame, args []value) value {
			n := int(asInt64(args[0]))
			b := make([]value, n)
			for k := range b {
				b[k] = byte(0)
			}
			return b
		},
		"strings.Index":         extIndex,
		"bytes.Index":           extIndex,
		"strings.IndexByte":     extIndexByte,
		"bytes.IndexByte":       extIndexByte,
		"strings.LastIndexByte": extLastIndexByte,
		"bytes.LastIndexByte":   extLastIndexByte,
		"strings.Contains": func(fr *frame, args []value) value {
			r := extIndex(fr, args)
			return asInt64(r) >= 0
		},
		"bytes.Contains": func(fr *frame, args []value) value {
			r := extIndex(fr, args)
			return asInt64(r) >= 0
		},
		"bytes.Equal":     extBytesEqual,
		"strings.Compare": extCompare,
		"bytes.Compare":   extCompare,
		"strings.Count":   extCount,
		"bytes.Count":     extCount,

		// strconv / fmt natives (concrete arguments)
		"strconv.ParseFloat":         extParseFloat,
		"strings.Clone":              func(fr *frame, args []value) value { return args[0] },
		"internal/stringslite.Clone": func(fr *frame, args []value) value { return args[0] },
		"strconv.ParseInt":           extParseInt,
		"strconv.ParseUint":          extParseUint,
		"strconv.Atoi":               extAtoi,
		"strconv.Itoa":               func(fr *frame, args []value) value { return strconv.Itoa(int(concInt(fr, args[0], "strconv.Itoa"))) },
		"strconv.FormatInt": func(fr *frame, args []value) value {
			return strconv.FormatInt(concInt(fr, args[0], "strconv.FormatInt"), int(asInt64(args[1])))
		},
		"strconv.FormatUint": func(fr *frame, args []value) value {
			return strconv.FormatUint(uint64(concInt(fr, args[0], "strconv.FormatUint")), int(asInt64(args[1])))
		},
		"strconv.FormatFloat": func(fr *frame, args []value) value {
			return strconv.FormatFloat(concFloat(args[0], "strconv.FormatFloat"), args[1].(byte), int(asInt64(args[2])), int(asInt64(args[3])))
		},
		"strconv.Quote": func(fr *frame, args []value) value {
			if s, ok := args[0].(string); ok {
				return strconv.Quote(s)
			}
			return interpretInstead{}
		},
		"strconv.Unquote": func(fr *frame, args []value) value {
			if _, ok := args[0].(symStr); ok {
				return interpretInstead{}
			}
			s, err := strconv.Unquote(concStr(args[0], "strconv.Unquote"))
			return tuple{s, fr.i.errValue(err)}
		},
		"fmt.Sprintf":  extSprintf,
		"fmt.Sprint":   extSprint,
		"fmt.Errorf":   extErrorf,
		"fmt.Fprintf":  extFprintf,
		"fmt.Fprint":   extFprint,
		"fmt.Fprintln": extFprintln,

		// time
		"time.Now":                 func(fr *frame, args []value) value { return fr.i.x.nowValue() },
		"time.Unix":                extTimeUnix,
		"time.Since":               func(fr *frame, args []value) value { return int64(0) },
		"(time.Time).Add":          extTimeAdd,
		"(time.Time).Sub":          extTimeSub,
		"(time.Time).After":        extTimeCmp(token.GTR),
		"(time.Time).Before":       extTimeCmp(token.LSS),
		"(time.Time).Equal":        extTimeCmp(token.EQL),
		"(time.Time).Compare":      extTimeCompare,
		"(time.Time).UnixNano":     func(fr *frame, args []value) value { return timeNs(args[0]) },
		"(time.Time).Unix":         extTimeUnixSec,
		"(time.Time).UnixMilli":    extTimeUnixMilli,
		"(time.Time).IsZero":       func(fr *frame, args []value) value { return args[0].(timeVal).zero },
		"(time.Time).UTC":          func(fr *frame, args []value) value { return args[0] },
		"(time.Time).Local":        func(fr *frame, args []value) value { return args[0] },
		"(time.Time).In":           func(fr *frame, args []value) value { return args[0] },
		"(time.Time).Round":        func(fr *frame, args []value) value { return args[0] },
		"(time.Time).Truncate":     extTimeTruncate,
		"(time.Time).Format":       extTimeFormat,
		"(time.Time).AppendFormat": extTimeAppendFormat,
		"(time.Time).String":       func(fr *frame, args []value) value { return extTimeFormat(fr, []value{args[0], time.RFC3339Nano}) },
		"time.Parse":               extTimeParse,
		"time.Date":                extTimeDate,
		"time.ParseDuration":       extParseDuration,
		"(time.Duration).String": func(fr *frame, args []value) value {
			return time.Duration(concInt(fr, args[0], "Duration.String")).String()
		},
		"(time.Duration).Seconds": extDurationSeconds,
	} {
		externals[k] = v
	}
}

// ---- helpers ----

func concStr(v value, what string) string {
	s, ok := v.(string)
	if !ok {
		panic(unsupported(what + " on symbolic string"))
	}
	return s
}

func concFloat(v value, what string) float64 {
	switch f := v.(type) {
	case float64:
		return f
	case float32:
		return float64(f)
	}
	panic(unsupported(what + " on symbolic float"))
}

func concInt(fr *frame, v value, what string) int64 {
	if _, ok := v.(sym); ok {
		return fr.i.x.concretizeByModel(v, what)
	}
	return asInt64(v)
}

func bytesOf(v value) []value {
	switch v := v.(type) {
	case string, symStr:
		return strBytes(v)
	case []value:
		return v
	}
	panic(unsupported(fmt.Sprintf("bytesOf %T", v)))
}

// errValue converts a native error into an interpreted errors.errorString.
func (i *interpreter) errValue(err error) value {
	if err == nil {
		return iface{}
	}
	return i.newError(err.Error())
}

func (i *interpreter) newError(msg string) value {
	pkg := i.prog.ImportedPackage("errors")
	if pkg == nil {
		panic(unsupported("errors package not loaded"))
	}
	pkg.Build()
	return call(i, nil, token.NoPos, pkg.Func("New"), []value{msg})
}

func extOnceDo(fr *frame, args []value) value {
	o := args[0].(*value)
	st := (*o).(structure)
	// done is field 0 (atomic.Uint32 {_ noCopy; v uint32}) in go1.23
	doneCell := findUint32(&st[0])
	if doneCell != nil && asInt64(*doneCell) != 0 {
		return nil
	}
	if doneCell != nil {
		*doneCell = uint32(1)
	}
	fr.i.x.locked++
	defer func() { fr.i.x.locked-- }()
	call(fr.i, fr, token.NoPos, args[1], nil)
	return nil
}

func findUint32(p *value) *value {
	switch v := (*p).(type) {
	case uint32:
		return p
	case structure:
		for k := range v {
			if r := findUint32(&v[k]); r != nil {
				return r
			}
		}
	}
	return nil
}

func extPoolGet(fr *frame, args []value) value {
	p := args[0].(*value)
	st := (*p).(structure)
	// New is the last field
	nf := st[len(st)-1]
	switch f := nf.(type) {
	case *ssa.Function:
		if f == nil {
			return iface{}
		}
	case nil:
		return iface{}
	}
	return call(fr.i, fr, token.NoPos, nf, nil)
}

func atomicLoad(fr *frame, args []value) value {
	p := args[0].(*value)
	if p == nil {
		panic(nilDeref())
	}
	return *p
}

func atomicStore(fr *frame, args []value) value {
	p := args[0].(*value)
	if p == nil {
		panic(nilDeref())
	}
	*p = args[1]
	return nil
}

func atomicAdd(fr *frame, args []value) value {
	p := args[0].(*value)
	*p = binop(fr.i, token.ADD, nil, *p, args[1])
	return *p
}

func atomicCAS(fr *frame, args []value) value {
	p := args[0].(*value)
	if fr.i.x.truth(fr.i.x.symEquals(nil, *p, args[1]), "cas") {
		*p = args[2]
		return true
	}
	return false
}

func extFloat64bits(fr *frame, args []value) value {
	switch f := args[0].(type) {
	case float64:
		return math.Float64bits(f)
	case sym:
		if f.t.op == "(_ to_fp 11 53)" && len(f.t.args) == 1 && f.t.args[0].sort.k == sBV {
			return sym{f.t.args[0], types.Uint64}
		}
	}
	panic(unsupported("math.Float64bits of a computed symbolic float"))
}

func extFloat64frombits(fr *frame, args []value) value {
	switch u := args[0].(type) {
	case uint64:
		return math.Float64frombits(u)
	case sym:
		return sym{fr.i.x.tt.FPFromBits(u.t, 64), types.Float64}
	}
	panic(unsupported("math.Float64frombits"))
}

func extIsNaN(fr *frame, args []value) value {
	switch f := args[0].(type) {
	case float64:
		return math.IsNaN(f)
	case sym:
		return fr.i.x.lower(fr.i.x.tt.FIsNaN(f.t), types.Bool)
	}
	panic("IsNaN")
}

func extIsInf(fr *frame, args []value) value {
	switch f := args[0].(type) {
	case float64:
		return math.IsInf(f, int(asInt64(args[1])))
	case sym:
		x := fr.i.x
		sign := asInt64(args[1])
		inf := x.tt.FIsInf(f.t)
		zero := x.tt.FP(64, 0)
		switch {
		case sign > 0:
			inf = x.tt.And(inf, x.tt.FCmp("fp.gt", f.t, zero))
		case sign < 0:
			inf = x.tt.And(inf, x.tt.FCmp("fp.lt", f.t, zero))
		}
		return x.lower(inf, types.Bool)
	}
	panic("IsInf")
}

// mathUF1 / mathUF2: native on concrete arguments, otherwise an
// uninterpreted function shared by every call site (so that code and
// reference agree structurally).
func mathUF1(name string, f func(float64) float64) externalFn {
	return func(fr *frame, args []value) value {
		if c, ok := args[0].(float64); ok {
			return f(c)
		}
		x := fr.i.x
		return x.lower(x.tt.UF("math_"+name, fpSort(64), x.lift(args[0])), types.Float64)
	}
}

// mathRound: rounding to an integral value is exact in SMT-LIB floating point.
func mathRound(mode string, f func(float64) float64) externalFn {
	return func(fr *frame, args []value) value {
		if c, ok := args[0].(float64); ok {
			return f(c)
		}
		x := fr.i.x
		return x.lower(x.tt.FRound(mode, x.lift(args[0])), types.Float64)
	}
}

// math.Abs precisely: +0 for either zero, -x for negative x, x otherwise
// (NaN stays NaN).
func mathAbs(fr *frame, args []value) value {
	if c, ok := args[0].(float64); ok {
		return math.Abs(c)
	}
	x := fr.i.x
	tt := x.tt
	a := x.lift(args[0])
	zero := tt.FP(64, 0)
	r := tt.Ite(tt.FCmp("fp.eq", a, zero), zero, tt.Ite(tt.FCmp("fp.lt", a, zero), tt.FNeg(a), a))
	return x.lower(r, types.Float64)
}

func mathUF2(name string, f func(a, b float64) float64) externalFn {
	return func(fr *frame, args []value) value {
		a, ok1 := args[0].(float64)
		b, ok2 := args[1].(float64)
		if ok1 && ok2 {
			return f(a, b)
		}
		x := fr.i.x
		return x.lower(x.tt.UF("math_"+name, fpSort(64), x.lift(args[0]), x.lift(args[1])), types.Float64)
	}
}

// ---- byte search ----

func extIndexByte(fr *frame, args []value) value {
	b := bytesOf(args[0])
	c := args[1]
	x := fr.i.x
	for k, e := range b {
		if x.truth(x.symEquals(types.Typ[types.Uint8], e, c), "IndexByte") {
			return k
		}
	}
	return -1
}

func extLastIndexByte(fr *frame, args []value) value {
	b := bytesOf(args[0])
	c := args[1]
	x := fr.i.x
	for k := len(b) - 1; k >= 0; k-- {
		if x.truth(x.symEquals(types.Typ[types.Uint8], b[k], c), "LastIndexByte") {
			return k
		}
	}
	return -1
}

func extIndex(fr *frame, args []value) value {
	s := bytesOf(args[0])
	sub := bytesOf(args[1])
	x := fr.i.x
	if len(sub) == 0 {
		return 0
	}
	for k := 0; k+len(sub) <= len(s); k++ {
		if x.truth(x.strEq(mkStr(s[k:k+len(sub)]), mkStr(sub)), "Index") {
			return k
		}
	}
	return -1
}

func extBytesEqual(fr *frame, args []value) value {
	return fr.i.x.strEq(mkStr(bytesOf(args[0])), mkStr(bytesOf(args[1])))
}

func extCompare(fr *frame, args []value) value {
	a, b := mkStr(bytesOf(args[0])), mkStr(bytesOf(args[1]))
	x := fr.i.x
	if x.truth(x.strEq(a, b), "Compare eq") {
		return 0
	}
	if x.truth(x.strLess(a, b, false), "Compare lt") {
		return -1
	}
	return 1
}

func extCount(fr *frame, args []value) value {
	s := bytesOf(args[0])
	x := fr.i.x
	var sep []value
	switch c := args[1].(type) {
	case byte, sym:
		sep = []value{c}
	default:
		sep = bytesOf(args[1])
	}
	if len(sep) == 0 {
		if cs, ok := mkStr(s).(string); ok {
			return utf8.RuneCountInString(cs) + 1
		}
		panic(unsupported("Count with empty separator on symbolic string"))
	}
	n := 0
	for k := 0; k+len(sep) <= len(s); {
		if x.truth(x.strEq(mkStr(s[k:k+len(sep)]), mkStr(sep)), "Count") {
			n++
			k += len(sep)
		} else {
			k++
		}
	}
	return n
}

// ---- strconv / fmt ----

func extParseFloat(fr *frame, args []value) value {
	s := concStr(args[0], "strconv.ParseFloat")
	f, err := strconv.ParseFloat(s, int(asInt64(args[1])))
	return tuple{f, fr.i.numError(err)}
}

func extParseInt(fr *frame, args []value) value {
	if _, ok := args[0].(symStr); ok {
		return interpretInstead{}
	}
	s := concStr(args[0], "strconv.ParseInt")
	n, err := strconv.ParseInt(s, int(asInt64(args[1])), int(asInt64(args[2])))
	return tuple{n, fr.i.numError(err)}
}

func extParseUint(fr *frame, args []value) value {
	if _, ok := args[0].(symStr); ok {
		return interpretInstead{}
	}
	s := concStr(args[0], "strconv.ParseUint")
	n, err := strconv.ParseUint(s, int(asInt64(args[1])), int(asInt64(args[2])))
	return tuple{n, fr.i.numError(err)}
}

func extAtoi(fr *frame, args []value) value {
	if _, ok := args[0].(symStr); ok {
		return interpretInstead{}
	}
	s := concStr(args[0], "strconv.Atoi")
	n, err := strconv.Atoi(s)
	return tuple{n, fr.i.numError(err)}
}

// numError converts a strconv error into the interpreter's *strconv.NumError
// (callers inside strconv type-assert it).
func (i *interpreter) numError(err error) value {
	ne, ok := err.(*strconv.NumError)
	pkg := i.prog.ImportedPackage("strconv")
	if err == nil || !ok || pkg == nil {
		return i.errValue(err)
	}
	tn := pkg.Type("NumError")
	var inner value = iface{}
	name := ""
	switch ne.Err {
	case strconv.ErrSyntax:
		name = "ErrSyntax"
	case strconv.ErrRange:
		name = "ErrRange"
	}
	if g := pkg.Var(name); name != "" && g != nil {
		if cell, ok := i.globals[g]; ok && cell != nil {
			inner = *cell
		}
	}
	if it, ok := inner.(iface); !ok || it.t == nil {
		inner = i.errValue(ne.Err)
	}
	if tn == nil {
		return i.errValue(err)
	}
	cell := value(structure{ne.Func, ne.Num, inner})
	return iface{types.NewPointer(tn.Type()), &cell}
}

// fmtArg converts an interpreter value into something fmt can print.
func (i *interpreter) fmtArg(v value) (interface{}, bool) {
	i.fmtDepth++
	defer func() { i.fmtDepth-- }()
	if i.fmtDepth > 6 {
		return "<…>", true
	}
	switch v := v.(type) {
	case iface:
		if v.t == nil {
			return nil, true
		}
		if containsSym(v.v) {
			return nil, false // never run String()/Error() on symbolic data just to format a message
		}
		// error / Stringer?
		if s := i.tryErrorString(v); s != "" {
			return fmtError{s}, true
		}
		if s, ok := i.tryStringMethod(v); ok {
			return fmtStringer{s}, true
		}
		return i.fmtArg(v.v)
	case bool, int, int8, int16, int32, int64, uint, uint8, uint16, uint32, uint64, uintptr, float32, float64, string:
		return v, true
	case []value:
		allb := true
		for _, e := range v {
			if _, ok := e.(byte); !ok {
				allb = false
			}
		}
		if allb {
			b := make([]byte, len(v))
			for k, e := range v {
				b[k] = e.(byte)
			}
			return b, true
		}
		var out []interface{}
		for _, e := range v {
			a, ok := i.fmtArg(e)
			if !ok {
				return nil, false
			}
			out = append(out, a)
		}
		return out, true
	case timeVal:
		if _, ok := v.ns.(sym); ok {
			return nil, false
		}
		return time.Unix(0, asInt64(v.ns)).UTC(), true
	case sym, symStr:
		return nil, false
	case *value:
		return fmt.Sprintf("%p", v), true
	case structure:
		return "{…}", true
	}
	return fmt.Sprintf("<%T>", v), true
}

type fmtError struct{ s string }

func (e fmtError) Error() string { return e.s }

type fmtStringer struct{ s string }

func (e fmtStringer) String() string { return e.s }

func (i *interpreter) tryStringMethod(it iface) (s string, ok bool) {
	defer func() {
		if p := recover(); p != nil {
			s, ok = "", false
		}
	}()
	ms := i.prog.MethodSets.MethodSet(it.t)
	sel := ms.Lookup(nil, "String")
	if sel == nil {
		return "", false
	}
	sig, _ := sel.Type().(*types.Signature)
	if sig == nil || sig.Params().Len() != 0 || sig.Results().Len() != 1 {
		return "", false
	}
	fn := i.prog.MethodValue(sel)
	if fn == nil {
		return "", false
	}
	r := call(i, nil, token.NoPos, fn, []value{it.v})
	str, ok := r.(string)
	return str, ok
}

func (i *interpreter) sprintf(format string, rest []value) string {
	var as []interface{}
	for _, a := range rest {
		v, ok := i.fmtArg(a)
		if !ok {
			v = "<sym>"
		}
		as = append(as, v)
	}
	return fmt.Sprintf(format, as...)
}

func extSprintf(fr *frame, args []value) value {
	return fr.i.sprintf(concStr(args[0], "fmt.Sprintf format"), args[1].([]value))
}

func extSprint(fr *frame, args []value) value {
	var as []interface{}
	for _, a := range args[0].([]value) {
		v, ok := fr.i.fmtArg(a)
		if !ok {
			v = "<sym>"
		}
		as = append(as, v)
	}
	return fmt.Sprint(as...)
}

// extErrorf builds an error; a %w operand stays reachable through Unwrap.
func extErrorf(fr *frame, args []value) value {
	format := concStr(args[0], "fmt.Errorf format")
	rest := args[1].([]value)
	msg := fr.i.sprintf(strings.ReplaceAll(format, "%w", "%v"), rest)
	if strings.Contains(format, "%w") {
		for _, a := range rest {
			if it, ok := a.(iface); ok && it.t != nil && fr.i.tryErrorString(it) != "" || ok && it.t != nil && isErrorType(it.t) {
				return fr.i.wrapError(msg, a.(iface))
			}
		}
	}
	return fr.i.newError(msg)
}

func isErrorType(t types.Type) bool {
	ms := types.NewMethodSet(t)
	return ms.Lookup(nil, "Error") != nil
}

func (i *interpreter) wrapError(msg string, inner iface) value {
	pkg := i.prog.ImportedPackage("fmt")
	if pkg == nil {
		return i.newError(msg)
	}
	ty := pkg.Type("wrapError")
	if ty == nil {
		return i.newError(msg)
	}
	cell := value(structure{msg, inner})
	return iface{t: types.NewPointer(ty.Type()), v: &cell}
}

// writerWrite calls w.Write(p) on an interpreted io.Writer.
func (i *interpreter) writerWrite(fr *frame, w value, s string) value {
	it := w.(iface)
	if it.t == nil {
		panic(nilDeref())
	}
	ms := i.prog.MethodSets.MethodSet(it.t)
	sel := ms.Lookup(nil, "Write")
	if sel == nil {
		panic(unsupported("Fprintf to a non-writer"))
	}
	fn := i.prog.MethodValue(sel)
	r := call(i, fr, token.NoPos, fn, []value{it.v, strBytes(s)})
	return r
}

func extFprintf(fr *frame, args []value) value {
	s := fr.i.sprintf(concStr(args[1], "fmt.Fprintf format"), args[2].([]value))
	return fr.i.writerWrite(fr, args[0], s)
}

func extFprint(fr *frame, args []value) value {
	s := extSprint(fr, []value{args[1]}).(string)
	return fr.i.writerWrite(fr, args[0], s)
}

func extFprintln(fr *frame, args []value) value {
	var as []interface{}
	for _, a := range args[1].([]value) {
		v, ok := fr.i.fmtArg(a)
		if !ok {
			v = "<sym>"
		}
		as = append(as, v)
	}
	return fr.i.writerWrite(fr, args[0], fmt.Sprintln(as...))
}

// ---- time model ----

func timeNs(v value) value {
	t := v.(timeVal)
	if t.zero {
		// year 1 is far below every modelled instant
		return int64(math.MinInt64)
	}
	return t.ns
}

func (x *pathCtx) nowValue() value {
	if x.now == nil {
		_, t := x.newInput("time.Now", "int64", bvSort(64))
		// 2001 .. 2200, as the properties' time range
		x.assumeTerm(x.tt.BVCmp("bvsle", x.tt.BV(64, uint64(978307200)*1e9), t))
		x.assumeTerm(x.tt.BVCmp("bvsle", t, x.tt.BV(64, uint64(7258118400)*1e9)))
		x.now = sym{t, types.Int64}
	}
	return timeVal{ns: x.now}
}

func extTimeUnix(fr *frame, args []value) value {
	sec, nsec := args[0], args[1]
	i := fr.i
	if s, ok := sec.(int64); ok && s == 0 {
		return timeVal{ns: nsec}
	}
	ns := binop(i, token.ADD, nil, binop(i, token.MUL, nil, sec, int64(1e9)), nsec)
	return timeVal{ns: ns}
}

func extTimeAdd(fr *frame, args []value) value {
	t := args[0].(timeVal)
	if t.zero {
		panic(unsupported("Add on the zero Time"))
	}
	return timeVal{ns: binop(fr.i, token.ADD, nil, t.ns, args[1])}
}

func extTimeSub(fr *frame, args []value) value {
	a, b := args[0].(timeVal), args[1].(timeVal)
	if a.zero || b.zero {
		panic(unsupported("Sub with the zero Time"))
	}
	return binop(fr.i, token.SUB, nil, a.ns, b.ns)
}

func extTimeCmp(op token.Token) externalFn {
	return func(fr *frame, args []value) value {
		a, b := args[0].(timeVal), args[1].(timeVal)
		if a.zero || b.zero {
			switch op {
			case token.EQL:
				return a.zero == b.zero
			case token.LSS:
				return a.zero && !b.zero
			case token.GTR:
				return !a.zero && b.zero
			}
		}
		return binop(fr.i, op, types.Typ[types.Int64], a.ns, b.ns)
	}
}

func extTimeCompare(fr *frame, args []value) value {
	x := fr.i.x
	if x.truth(extTimeCmp(token.LSS)(fr, args), "Time.Compare") {
		return -1
	}
	if x.truth(extTimeCmp(token.GTR)(fr, args), "Time.Compare") {
		return 1
	}
	return 0
}

// floorDiv returns floor(a / d) for a constant positive d.
func floorDiv(fr *frame, a value, d int64) value {
	i := fr.i
	if c, ok := a.(int64); ok {
		q := c / d
		if c%d < 0 {
			q--
		}
		return q
	}
	x := i.x
	s := a.(sym)
	q := x.bvHard("bvsdiv", s.t, x.tt.BV(64, uint64(d)))
	r := x.bvHard("bvsrem", s.t, x.tt.BV(64, uint64(d)))
	neg := x.tt.BVCmp("bvslt", r, x.tt.BV(64, 0))
	return x.lower(x.tt.Ite(neg, x.tt.BVBin("bvsub", q, x.tt.BV(64, 1)), q), types.Int64)
}

func extTimeUnixSec(fr *frame, args []value) value {
	return floorDiv(fr, timeNs(args[0]), 1e9)
}

func extTimeUnixMilli(fr *frame, args []value) value {
	return floorDiv(fr, timeNs(args[0]), 1e6)
}

func extTimeTruncate(fr *frame, args []value) value {
	t := args[0].(timeVal)
	if s, ok := t.ns.(sym); ok {
		dv, ok := args[1].(int64)
		if !ok || dv <= 0 {
			panic(unsupported("Time.Truncate of a symbolic instant by a symbolic duration"))
		}
		// Truncate rounds down to a multiple of d since the zero Time
		// (year 1), i.e. t - ((t - zero) mod d).  zero = -62135596800 s before
		// the epoch does not fit 64-bit nanoseconds, so the offset is reduced
		// modulo d first: (ns + Z) mod d with Z = (62135596800e9 mod d).
		x := fr.i.x
		tt := x.tt
		z := new(big.Int).Mul(big.NewInt(62135596800), big.NewInt(1000000000))
		z.Mod(z, big.NewInt(dv))
		d := tt.BV(64, uint64(dv))
		// ns may be negative: normalise its remainder into [0, d)
		r := x.bvHard("bvsrem", s.t, d)
		r = tt.Ite(tt.BVCmp("bvslt", r, tt.BV(64, 0)), tt.BVBin("bvadd", r, d), r)
		sum := tt.BVBin("bvadd", r, tt.BV(64, z.Uint64())) // < 2d, no overflow for d < 2^62
		sum = tt.Ite(tt.BVCmp("bvule", d, sum), tt.BVBin("bvsub", sum, d), sum)
		return timeVal{ns: x.lower(tt.BVBin("bvsub", s.t, sum), types.Int64)}
	}
	d := concInt(fr, args[1], "Truncate")
	tt := time.Unix(0, asInt64(t.ns)).UTC().Truncate(time.Duration(d))
	return timeVal{ns: tt.UnixNano()}
}

func extTimeFormat(fr *frame, args []value) value {
	t := args[0].(timeVal)
	layout := concStr(args[1], "Time.Format layout")
	if t.zero {
		return time.Time{}.Format(layout)
	}
	if s, ok := t.ns.(sym); ok {
		// opaque, injective rendering: only equality is meaningful
		_ = s
		panic(unsupported("Time.Format of a symbolic instant"))
	}
	return time.Unix(0, asInt64(t.ns)).UTC().Format(layout)
}

func extTimeAppendFormat(fr *frame, args []value) value {
	s := extTimeFormat(fr, []value{args[0], args[2]}).(string)
	return append(args[1].([]value), strBytes(s)...)
}

func extTimeParse(fr *frame, args []value) value {
	layout := concStr(args[0], "time.Parse layout")
	x := fr.i.x
	switch s := args[1].(type) {
	case string:
		t, err := time.Parse(layout, s)
		if err != nil {
			return tuple{timeVal{ns: int64(0), zero: true}, fr.i.errValue(err)}
		}
		return tuple{timeVal{ns: t.UnixNano()}, iface{}}
	case symStr:
		// contract stub: (T_len(bytes), E_len(bytes)) uninterpreted
		var ts []*Term
		for _, b := range s.b {
			ts = append(ts, x.lift(b))
		}
		okT := x.tt.UF(fmt.Sprintf("timeparse_ok_%d", len(ts)), boolSort, ts...)
		if !x.decideBool(okT, "time.Parse ok") {
			return tuple{timeVal{ns: int64(0), zero: true}, fr.i.newError("parsing time: stub error")}
		}
		ns := x.tt.UF(fmt.Sprintf("timeparse_ns_%d", len(ts)), bvSort(64), ts...)
		return tuple{timeVal{ns: x.lower(ns, types.Int64)}, iface{}}
	}
	panic("time.Parse")
}

// time.Date with concrete fields (normalising, as the library does); the
// location is taken to be UTC.
func extTimeDate(fr *frame, args []value) value {
	var f [7]int
	for k := 0; k < 7; k++ {
		f[k] = int(concInt(fr, args[k], "time.Date field"))
	}
	// args[7] (*time.Location) is not inspected: package time's variables are
	// not initialised in this interpreter (time.UTC reads as nil) and UTC is
	// the only location the modelled time knows
	t := time.Date(f[0], time.Month(f[1]), f[2], f[3], f[4], f[5], f[6], time.UTC)
	return timeVal{ns: t.UnixNano()}
}

func extParseDuration(fr *frame, args []value) value {
	s := concStr(args[0], "time.ParseDuration")
	d, err := time.ParseDuration(s)
	return tuple{int64(d), fr.i.errValue(err)}
}

func extDurationSeconds(fr *frame, args []value) value {
	switch d := args[0].(type) {
	case int64:
		return time.Duration(d).Seconds()
	case sym:
		x := fr.i.x
		// sec + nsec/1e9 as in the library, shared UF keeps code and
		// reference structurally equal
		return x.lower(x.tt.UF("duration_seconds", fpSort(64), d.t), types.Float64)
	}
	panic("Duration.Seconds")
}

var _ = unsafe.Pointer(nil)

// ---- strings.Trim* with a concrete cutset ----

func (x *pathCtx) inCutset(b value, cutset string) bool {
	if c, ok := b.(byte); ok {
		return strings.IndexByte(cutset, c) >= 0
	}
	t := x.lift(b)
	acc := x.tt.Bool(false)
	for k := 0; k < len(cutset); k++ {
		acc = x.tt.Or(acc, x.tt.Eq(t, x.tt.BV(8, uint64(cutset[k]))))
	}
	return x.decideBool(acc, "cutset")
}

func asciiOnly(s string) bool {
	for i := 0; i < len(s); i++ {
		if s[i] >= utf8.RuneSelf {
			return false
		}
	}
	return true
}

func extTrim(left, right bool) externalFn {
	return func(fr *frame, args []value) value {
		cut := concStr(args[1], "strings.Trim cutset")
		if s, ok := args[0].(string); ok {
			switch {
			case left && right:
				return strings.Trim(s, cut)
			case left:
				return strings.TrimLeft(s, cut)
			default:
				return strings.TrimRight(s, cut)
			}
		}
		if !asciiOnly(cut) {
			panic(unsupported("strings.Trim with non-ASCII cutset on symbolic string"))
		}
		b := strBytes(args[0])
		lo, hi := 0, len(b)
		x := fr.i.x
		if right {
			// a byte >= 0x80 is never in an ASCII cutset, so bytewise
			// scanning agrees with the rune-wise library loop
			for hi > lo && x.inCutset(b[hi-1], cut) {
				hi--
			}
		}
		if left {
			for lo < hi && x.inCutset(b[lo], cut) {
				lo++
			}
		}
		return mkStr(b[lo:hi])
	}
}

func init() {
	externals["strings.TrimRight"] = extTrim(false, true)
	externals["strings.TrimLeft"] = extTrim(true, false)
	externals["strings.Trim"] = extTrim(true, true)
	externals["strings.TrimSpace"] = func(fr *frame, args []value) value {
		if s, ok := args[0].(string); ok {
			return strings.TrimSpace(s)
		}
		// ASCII white space only; bytes >= 0x80 would need Unicode space
		// classification, which the model does not attempt
		b := strBytes(args[0])
		x := fr.i.x
		for _, e := range b {
			if s, ok := e.(sym); ok {
				if x.decideBool(x.tt.BVCmp("bvule", x.tt.BV(8, 0x80), s.t), "TrimSpace non-ascii") {
					panic(unsupported("strings.TrimSpace on non-ASCII symbolic byte"))
				}
			}
		}
		return extTrim(true, true)(fr, []value{args[0], "\t\n\v\f\r "})
	}
}

// ---- context ----

type nativeFunc struct {
	name string
	f    func(fr *frame, args []value) value
}

func init() {
	externals["context.WithValue"] = func(fr *frame, args []value) value {
		pkg := fr.i.prog.ImportedPackage("context")
		ty := pkg.Type("valueCtx")
		if ty == nil {
			panic(unsupported("context.valueCtx not found"))
		}
		cell := value(structure{args[0], args[1], args[2]})
		return iface{t: types.NewPointer(ty.Type()), v: &cell}
	}
	nopCancel := &nativeFunc{name: "context.cancel", f: func(fr *frame, args []value) value { return nil }}
	// cancellation is outside every claim: derived contexts are their parents
	externals["context.WithCancel"] = func(fr *frame, args []value) value { return tuple{args[0], nopCancel} }
	externals["context.WithCancelCause"] = func(fr *frame, args []value) value { return tuple{args[0], nopCancel} }
	externals["context.WithTimeout"] = func(fr *frame, args []value) value { return tuple{args[0], nopCancel} }
	externals["context.WithDeadline"] = func(fr *frame, args []value) value { return tuple{args[0], nopCancel} }
	externals["context.Cause"] = func(fr *frame, args []value) value { return iface{} }
}

func init() {
	externals["maps.clone"] = func(fr *frame, args []value) value {
		it := args[0].(iface)
		m, _ := it.v.(*smap)
		if m == nil {
			return it
		}
		c := &smap{kt: m.kt, vt: m.vt, idx: map[interface{}]*smapEntry{}}
		for _, e := range m.ents {
			if e.dead {
				continue
			}
			ne := &smapEntry{k: e.k, v: e.v, symK: e.symK}
			c.ents = append(c.ents, ne)
			c.n++
			if ne.symK {
				c.nsym++
			} else {
				c.idx[concreteKey(ne.k)] = ne
			}
		}
		return iface{t: it.t, v: c}
	}
}

// interpretInstead is returned by an external that declines the call: the
// function is then interpreted from its SSA.
type interpretInstead struct{}

func init() {
	decode := func(fr *frame, args []value) value {
		b := bytesOf(args[0])
		if len(b) == 0 {
			return tuple{rune(utf8.RuneError), 0}
		}
		r, w := fr.i.x.decodeRune(b, 0)
		return tuple{r, w}
	}
	externals["unicode/utf8.DecodeRuneInString"] = decode
	externals["unicode/utf8.DecodeRune"] = decode
	count := func(fr *frame, args []value) value {
		b := bytesOf(args[0])
		n := 0
		for pos := 0; pos < len(b); n++ {
			_, w := fr.i.x.decodeRune(b, pos)
			pos += w
		}
		return n
	}
	externals["unicode/utf8.RuneCountInString"] = count
	externals["unicode/utf8.RuneCount"] = count
	valid := func(fr *frame, args []value) value {
		b := bytesOf(args[0])
		if s, ok := mkStr(b).(string); ok {
			return utf8.ValidString(s)
		}
		x := fr.i.x
		for pos := 0; pos < len(b); {
			r, w := x.decodeRune(b, pos)
			if w == 1 {
				if rr, ok := r.(int32); ok && rr == utf8.RuneError {
					return false
				}
			}
			pos += w
		}
		return true
	}
	externals["unicode/utf8.ValidString"] = valid
	externals["unicode/utf8.Valid"] = valid
}

// ---- strconv.Quote over symbolic bytes ----
//
// Precise model of strconv.Quote (quote = '"', ASCIIonly = false,
// graphicOnly = false): per rune one decision on its escape class; the bytes
// inside a class are terms (no further forking).

func (x *pathCtx) quoteSym(b []value) value {
	tt := x.tt
	out := []value{byte('"')}
	hex := func(n *Term) value { // n: 4-bit value in 8 bits
		lt10 := tt.BVCmp("bvult", n, tt.BV(8, 10))
		return x.lower(tt.Ite(lt10, tt.BVBin("bvadd", n, tt.BV(8, '0')), tt.BVBin("bvadd", n, tt.BV(8, 'a'-10))), types.Uint8)
	}
	hexEsc := func(c *Term) {
		out = append(out, byte('\\'), byte('x'),
			hex(tt.BVBin("bvlshr", c, tt.BV(8, 4))), hex(tt.BVBin("bvand", c, tt.BV(8, 0x0f))))
	}
	for pos := 0; pos < len(b); {
		if c, ok := b[pos].(byte); ok && c < utf8.RuneSelf {
			q := strconv.Quote(string([]byte{c}))
			out = append(out, strBytes(q[1:len(q)-1])...)
			pos++
			continue
		}
		r, w := x.decodeRune(b, pos)
		if w > 1 {
			// valid multi-byte sequence: printable runes are copied, others escaped
			if rr, ok := r.(int32); ok {
				q := strconv.Quote(string(rune(rr)))
				out = append(out, strBytes(q[1:len(q)-1])...)
				pos += w
				continue
			}
			// symbolic rune of width w: one decision on printability
			rt := x.lift(r)
			lo, hi := uint64(0x80), uint64(0x7ff)
			switch w {
			case 3:
				lo, hi = 0x800, 0xffff
			case 4:
				lo, hi = 0x10000, 0x10ffff
			}
			pr := tt.Bool(false)
			for _, rg := range printableRanges(rune(lo), rune(hi)) {
				pr = tt.Or(pr, x.inRange(rt, uint64(rg[0]), uint64(rg[1])))
			}
			if x.decideBool(pr, "quote printable rune") {
				out = append(out, b[pos:pos+w]...)
			} else {
				nib := func(k uint) value {
					n := tt.Extract(7, 0, tt.BVBin("bvand", tt.BVBin("bvlshr", rt, tt.BV(32, uint64(4*k))), tt.BV(32, 0xf)))
					return hex(n)
				}
				if w <= 3 {
					out = append(out, byte('\\'), byte('u'), nib(3), nib(2), nib(1), nib(0))
				} else {
					out = append(out, byte('\\'), byte('U'), nib(7), nib(6), nib(5), nib(4), nib(3), nib(2), nib(1), nib(0))
				}
			}
			pos += w
			continue
		}
		if rr, ok := r.(int32); ok && rr == utf8.RuneError {
			// invalid byte: \xhh
			hexEsc(x.lift(b[pos]))
			pos++
			continue
		}
		// single ASCII byte, symbolic
		c := x.lift(b[pos])
		eq := func(k byte) *Term { return tt.Eq(c, tt.BV(8, uint64(k))) }
		isQuote := tt.Or(eq('"'), eq('\\'))
		printable := tt.And(x.inRange(c, 0x20, 0x7e), tt.Not(isQuote))
		named := tt.Or(x.inRange(c, 7, 13), tt.Bool(false)) // \a \b \t \n \v \f \r
		alts := []*Term{isQuote, printable, named, tt.Not(tt.Or(isQuote, tt.Or(printable, named)))}
		switch x.decide(alts, "quote class") {
		case 0:
			out = append(out, byte('\\'), b[pos])
		case 1:
			out = append(out, b[pos])
		case 2:
			// 7:a 8:b 9:t 10:n 11:v 12:f 13:r
			letters := "abtnvfr"
			var t *Term = tt.BV(8, uint64(letters[6]))
			for k := 5; k >= 0; k-- {
				t = tt.Ite(eq(byte(7+k)), tt.BV(8, uint64(letters[k])), t)
			}
			out = append(out, byte('\\'), x.lower(t, types.Uint8))
		default:
			hexEsc(c)
		}
		pos++
	}
	out = append(out, byte('"'))
	return mkStr(out)
}

func init() {
	externals["strconv.Quote"] = func(fr *frame, args []value) value {
		if s, ok := args[0].(string); ok {
			return strconv.Quote(s)
		}
		return fr.i.x.quoteSym(strBytes(args[0]))
	}
}

var printableCache = map[[2]rune][][2]rune{}
var printableMu sync.Mutex

// printableRanges lists the maximal runs of strconv.IsPrint runes in [lo, hi].
func printableRanges(lo, hi rune) [][2]rune {
	printableMu.Lock()
	defer printableMu.Unlock()
	k := [2]rune{lo, hi}
	if r, ok := printableCache[k]; ok {
		return r
	}
	var out [][2]rune
	start := rune(-1)
	for r := lo; r <= hi; r++ {
		if strconv.IsPrint(r) {
			if start < 0 {
				start = r
			}
		} else if start >= 0 {
			out = append(out, [2]rune{start, r - 1})
			start = -1
		}
	}
	if start >= 0 {
		out = append(out, [2]rune{start, hi})
	}
	printableCache[k] = out
	return out
}

// ---- errors.Is / errors.As (the library versions use reflectlite) ----

func (i *interpreter) methodOf(t types.Type, name string) *ssa.Function {
	ms := i.prog.MethodSets.MethodSet(t)
	sel := ms.Lookup(nil, name)
	if sel == nil {
		// unexported lookups need the package; only exported names are used here
		return nil
	}
	return i.prog.MethodValue(sel)
}

func (i *interpreter) errorsIs(fr *frame, err, target iface, depth int) bool {
	if depth > 64 {
		panic(unsupported("errors.Is: chain too deep"))
	}
	for {
		if err.t == nil {
			return target.t == nil
		}
		if sameType(err.t, target.t) && types.Comparable(err.t) {
			if i.x.truth(i.x.symEquals(err.t, err.v, target.v), "errors.Is ==") {
				return true
			}
		}
		if m := i.methodOf(err.t, "Is"); m != nil {
			if sig := m.Signature; sig.Params().Len() == 1 && sig.Results().Len() == 1 {
				if r, ok := call(i, fr, token.NoPos, m, []value{err.v, target}).(bool); ok && r {
					return true
				}
			}
		}
		m := i.methodOf(err.t, "Unwrap")
		if m == nil || m.Signature.Params().Len() != 0 || m.Signature.Results().Len() != 1 {
			return false
		}
		r := call(i, fr, token.NoPos, m, []value{err.v})
		switch r := r.(type) {
		case iface:
			if r.t == nil {
				return false
			}
			err = r
		case []value:
			for _, e := range r {
				if e, ok := e.(iface); ok && e.t != nil && i.errorsIs(fr, e, target, depth+1) {
					return true
				}
			}
			return false
		default:
			return false
		}
		depth++
		if depth > 64 {
			panic(unsupported("errors.Is: chain too deep"))
		}
	}
}

func (i *interpreter) errorsAs(fr *frame, err iface, target iface, depth int) bool {
	pt, ok := target.t.Underlying().(*types.Pointer)
	if !ok {
		panic(targetPanic{iface{types.Typ[types.String], "errors: target must be a non-nil pointer"}})
	}
	cell, _ := target.v.(*value)
	if cell == nil {
		panic(targetPanic{iface{types.Typ[types.String], "errors: target cannot be nil"}})
	}
	want := pt.Elem()
	for depth < 64 {
		if err.t == nil {
			return false
		}
		if it, ok := want.Underlying().(*types.Interface); ok {
			if types.Implements(err.t, it) {
				*cell = err
				return true
			}
		} else if types.Identical(err.t, want) {
			*cell = err.v
			return true
		}
		if m := i.methodOf(err.t, "As"); m != nil && m.Signature.Params().Len() == 1 {
			if r, ok := call(i, fr, token.NoPos, m, []value{err.v, target}).(bool); ok && r {
				return true
			}
		}
		m := i.methodOf(err.t, "Unwrap")
		if m == nil || m.Signature.Params().Len() != 0 || m.Signature.Results().Len() != 1 {
			return false
		}
		r := call(i, fr, token.NoPos, m, []value{err.v})
		switch r := r.(type) {
		case iface:
			err = r
		case []value:
			for _, e := range r {
				if e, ok := e.(iface); ok && e.t != nil && i.errorsAs(fr, e, target, depth+1) {
					return true
				}
			}
			return false
		default:
			return false
		}
		depth++
	}
	panic(unsupported("errors.As: chain too deep"))
}

// ---- sync.Pool: Get may return any previously Put item or a new one ----

func init() {
	externals["errors.Is"] = func(fr *frame, args []value) value {
		return fr.i.errorsIs(fr, args[0].(iface), args[1].(iface), 0)
	}
	externals["errors.As"] = func(fr *frame, args []value) value {
		return fr.i.errorsAs(fr, args[0].(iface), args[1].(iface), 0)
	}
	externals["(*sync.Pool).Put"] = func(fr *frame, args []value) value {
		x := fr.i.x
		if x.pools == nil {
			x.pools = map[*value][]value{}
		}
		p := args[0].(*value)
		if it, ok := args[1].(iface); ok && it.t == nil {
			return nil
		}
		x.pools[p] = append(x.pools[p], args[1])
		return nil
	}
	externals["(*sync.Pool).Get"] = func(fr *frame, args []value) value {
		x := fr.i.x
		p := args[0].(*value)
		if items := x.pools[p]; len(items) > 0 {
			// the runtime may hand back the most recently pooled item, or none
			if x.choose(2, "sync.Pool reuse") == 0 {
				it := items[len(items)-1]
				x.pools[p] = items[:len(items)-1]
				return it
			}
		}
		return extPoolGet(fr, args)
	}
}

func init() {
	swap := func(fr *frame, args []value) value {
		p := args[0].(*value)
		if p == nil {
			panic(nilDeref())
		}
		old := *p
		*p = args[1]
		return old
	}
	for _, n := range []string{"SwapUint32", "SwapInt32", "SwapUint64", "SwapInt64", "SwapPointer", "SwapUintptr"} {
		externals["sync/atomic."+n] = swap
	}
	for _, n := range []string{"AndUint32", "OrUint32", "AndInt32", "OrInt32"} {
		n := n
		externals["sync/atomic."+n] = func(fr *frame, args []value) value {
			p := args[0].(*value)
			old := *p
			op := token.AND
			if strings.HasPrefix(n, "Or") {
				op = token.OR
			}
			*p = binop(fr.i, op, nil, old, args[1])
			return old
		}
	}
}
