package symexec

// Hash-consed SMT terms with constant folding.  Sorts: Bool, BitVec(w<=64),
// FP (double / single).  A term table lives for one path execution.

import (
	"fmt"
	"math"
	"math/bits"
	"strconv"
	"strings"
)

type sortKind uint8

const (
	sBool sortKind = iota
	sBV
	sFP
)

type Sort struct {
	k sortKind
	w int // BV width, or 32/64 for FP
}

func (s Sort) String() string {
	switch s.k {
	case sBool:
		return "Bool"
	case sBV:
		return "(_ BitVec " + strconv.Itoa(s.w) + ")"
	case sFP:
		if s.w == 32 {
			return "(_ FloatingPoint 8 24)"
		}
		return "(_ FloatingPoint 11 53)"
	}
	return "?"
}

var boolSort = Sort{sBool, 0}

func bvSort(w int) Sort { return Sort{sBV, w} }
func fpSort(w int) Sort { return Sort{sFP, w} }

type Term struct {
	id      int
	op      string // "var", "const", or SMT operator / indexed op text
	args    []*Term
	sort    Sort
	isConst bool
	u       uint64 // constant payload: bool 0/1, bv bits, fp bits
	name    string // variable name, or UF name for op=="uf"
	defined bool   // emitted to the solver in the current scope
}

type TermTable struct {
	tab   map[string]*Term
	next  int
	vars  []*Term           // declared input variables in creation order
	ufs   map[string]string // UF name -> declaration
	ufOrd []string
}

func newTermTable() *TermTable {
	return &TermTable{tab: map[string]*Term{}, ufs: map[string]string{}}
}

func (tt *TermTable) intern(op string, sort Sort, args ...*Term) *Term {
	var sb strings.Builder
	sb.WriteString(op)
	sb.WriteByte('|')
	sb.WriteString(sort.String())
	for _, a := range args {
		sb.WriteByte(' ')
		sb.WriteString(strconv.Itoa(a.id))
	}
	k := sb.String()
	if t, ok := tt.tab[k]; ok {
		return t
	}
	tt.next++
	t := &Term{id: tt.next, op: op, sort: sort, args: args}
	tt.tab[k] = t
	return t
}

func mask(w int) uint64 {
	if w >= 64 {
		return ^uint64(0)
	}
	return (uint64(1) << uint(w)) - 1
}

func (tt *TermTable) BV(w int, u uint64) *Term {
	u &= mask(w)
	k := "c|" + strconv.Itoa(w) + "|" + strconv.FormatUint(u, 16)
	if t, ok := tt.tab[k]; ok {
		return t
	}
	tt.next++
	t := &Term{id: tt.next, op: "const", sort: bvSort(w), isConst: true, u: u}
	tt.tab[k] = t
	return t
}

func (tt *TermTable) Bool(b bool) *Term {
	k := "cb|0"
	var u uint64
	if b {
		k = "cb|1"
		u = 1
	}
	if t, ok := tt.tab[k]; ok {
		return t
	}
	tt.next++
	t := &Term{id: tt.next, op: "const", sort: boolSort, isConst: true, u: u}
	tt.tab[k] = t
	return t
}

func (tt *TermTable) FP(w int, f float64) *Term {
	var u uint64
	if w == 32 {
		u = uint64(math.Float32bits(float32(f)))
	} else {
		u = math.Float64bits(f)
	}
	k := "cf|" + strconv.Itoa(w) + "|" + strconv.FormatUint(u, 16)
	if t, ok := tt.tab[k]; ok {
		return t
	}
	tt.next++
	t := &Term{id: tt.next, op: "const", sort: fpSort(w), isConst: true, u: u}
	tt.tab[k] = t
	return t
}

// Var declares (or returns) an input variable.
func (tt *TermTable) Var(name string, sort Sort) *Term {
	k := "v|" + name
	if t, ok := tt.tab[k]; ok {
		return t
	}
	tt.next++
	t := &Term{id: tt.next, op: "var", sort: sort, name: name}
	tt.tab[k] = t
	tt.vars = append(tt.vars, t)
	return t
}

func (t *Term) constBool() (bool, bool) {
	if t.isConst && t.sort.k == sBool {
		return t.u == 1, true
	}
	return false, false
}

func (t *Term) fpConst() float64 {
	if t.sort.w == 32 {
		return float64(math.Float32frombits(uint32(t.u)))
	}
	return math.Float64frombits(t.u)
}

func signExt(u uint64, w int) int64 {
	if w >= 64 {
		return int64(u)
	}
	sh := uint(64 - w)
	return int64(u<<sh) >> sh
}

// ---- Boolean connectives ----

func (tt *TermTable) Not(a *Term) *Term {
	if b, ok := a.constBool(); ok {
		return tt.Bool(!b)
	}
	if a.op == "not" {
		return a.args[0]
	}
	return tt.intern("not", boolSort, a)
}

func (tt *TermTable) And(a, b *Term) *Term {
	if x, ok := a.constBool(); ok {
		if x {
			return b
		}
		return a
	}
	if x, ok := b.constBool(); ok {
		if x {
			return a
		}
		return b
	}
	if a == b {
		return a
	}
	if a.id > b.id {
		a, b = b, a
	}
	return tt.intern("and", boolSort, a, b)
}

func (tt *TermTable) Or(a, b *Term) *Term {
	if x, ok := a.constBool(); ok {
		if x {
			return a
		}
		return b
	}
	if x, ok := b.constBool(); ok {
		if x {
			return b
		}
		return a
	}
	if a == b {
		return a
	}
	if a.id > b.id {
		a, b = b, a
	}
	return tt.intern("or", boolSort, a, b)
}

func (tt *TermTable) Ite(c, a, b *Term) *Term {
	if x, ok := c.constBool(); ok {
		if x {
			return a
		}
		return b
	}
	if a == b {
		return a
	}
	if a.sort.k == sBool {
		if x, ok := a.constBool(); ok {
			if x { // c ? true : b
				return tt.Or(c, b)
			}
			return tt.And(tt.Not(c), b)
		}
		if x, ok := b.constBool(); ok {
			if x {
				return tt.Or(tt.Not(c), a)
			}
			return tt.And(c, a)
		}
	}
	return tt.intern("ite", a.sort, c, a, b)
}

// Eq on Bool / BV (bit-identity).  FP equality is fp.eq via FCmp.
func (tt *TermTable) Eq(a, b *Term) *Term {
	if a == b {
		return tt.Bool(true)
	}
	if a.isConst && b.isConst {
		return tt.Bool(a.u == b.u)
	}
	if a.sort.k == sBool {
		if x, ok := a.constBool(); ok {
			if x {
				return b
			}
			return tt.Not(b)
		}
		if x, ok := b.constBool(); ok {
			if x {
				return a
			}
			return tt.Not(a)
		}
	}
	if a.id > b.id {
		a, b = b, a
	}
	return tt.intern("=", boolSort, a, b)
}

// ---- bit-vectors ----

func (tt *TermTable) BVBin(op string, a, b *Term) *Term {
	w := a.sort.w
	if a.isConst && b.isConst {
		x, y := a.u, b.u
		switch op {
		case "bvadd":
			return tt.BV(w, x+y)
		case "bvsub":
			return tt.BV(w, x-y)
		case "bvmul":
			return tt.BV(w, x*y)
		case "bvand":
			return tt.BV(w, x&y)
		case "bvor":
			return tt.BV(w, x|y)
		case "bvxor":
			return tt.BV(w, x^y)
		case "bvudiv":
			if y != 0 {
				return tt.BV(w, x/y)
			}
		case "bvurem":
			if y != 0 {
				return tt.BV(w, x%y)
			}
		case "bvsdiv":
			if y != 0 {
				sx, sy := signExt(x, w), signExt(y, w)
				if !(sy == -1 && sx == math.MinInt64) {
					return tt.BV(w, uint64(sx/sy))
				}
			}
		case "bvsrem":
			if y != 0 {
				sx, sy := signExt(x, w), signExt(y, w)
				if sy != -1 {
					return tt.BV(w, uint64(sx%sy))
				}
				return tt.BV(w, 0)
			}
		case "bvshl":
			if y >= uint64(w) {
				return tt.BV(w, 0)
			}
			return tt.BV(w, x<<y)
		case "bvlshr":
			if y >= uint64(w) {
				return tt.BV(w, 0)
			}
			return tt.BV(w, x>>y)
		case "bvashr":
			sx := signExt(x, w)
			if y >= uint64(w) {
				y = uint64(w - 1)
			}
			return tt.BV(w, uint64(sx>>y))
		}
	}
	// identities
	switch op {
	case "bvadd", "bvor", "bvxor":
		if a.isConst && a.u == 0 {
			return b
		}
		if b.isConst && b.u == 0 {
			return a
		}
	case "bvsub", "bvshl", "bvlshr", "bvashr":
		if b.isConst && b.u == 0 {
			return a
		}
		if op == "bvsub" && a == b {
			return tt.BV(w, 0)
		}
	case "bvmul":
		if a.isConst && a.u == 1 {
			return b
		}
		if b.isConst && b.u == 1 {
			return a
		}
		if (a.isConst && a.u == 0) || (b.isConst && b.u == 0) {
			return tt.BV(w, 0)
		}
	case "bvand":
		if (a.isConst && a.u == 0) || (b.isConst && b.u == 0) {
			return tt.BV(w, 0)
		}
		if a.isConst && a.u == mask(w) {
			return b
		}
		if b.isConst && b.u == mask(w) {
			return a
		}
	}
	switch op {
	case "bvadd", "bvmul", "bvand", "bvor", "bvxor":
		if a.id > b.id {
			a, b = b, a
		}
	}
	return tt.intern(op, a.sort, a, b)
}

// BVCmp: op in bvult bvule bvslt bvsle (and derived g* via swapping by caller)
func (tt *TermTable) BVCmp(op string, a, b *Term) *Term {
	w := a.sort.w
	if a.isConst && b.isConst {
		switch op {
		case "bvult":
			return tt.Bool(a.u < b.u)
		case "bvule":
			return tt.Bool(a.u <= b.u)
		case "bvslt":
			return tt.Bool(signExt(a.u, w) < signExt(b.u, w))
		case "bvsle":
			return tt.Bool(signExt(a.u, w) <= signExt(b.u, w))
		}
	}
	if a == b {
		return tt.Bool(op == "bvule" || op == "bvsle")
	}
	return tt.intern(op, boolSort, a, b)
}

func (tt *TermTable) BVNeg(a *Term) *Term {
	if a.isConst {
		return tt.BV(a.sort.w, -a.u)
	}
	return tt.intern("bvneg", a.sort, a)
}

func (tt *TermTable) BVNot(a *Term) *Term {
	if a.isConst {
		return tt.BV(a.sort.w, ^a.u)
	}
	return tt.intern("bvnot", a.sort, a)
}

func (tt *TermTable) Extract(hi, lo int, a *Term) *Term {
	w := hi - lo + 1
	if lo == 0 && w == a.sort.w {
		return a
	}
	if a.isConst {
		return tt.BV(w, a.u>>uint(lo))
	}
	// extract of zero/sign extension back to the original width or less
	if (strings.HasPrefix(a.op, "(_ zero_extend") || strings.HasPrefix(a.op, "(_ sign_extend")) && lo == 0 && hi < a.args[0].sort.w {
		return tt.Extract(hi, lo, a.args[0])
	}
	return tt.intern(fmt.Sprintf("(_ extract %d %d)", hi, lo), bvSort(w), a)
}

func (tt *TermTable) ZeroExt(a *Term, w int) *Term {
	if w == a.sort.w {
		return a
	}
	if a.isConst {
		return tt.BV(w, a.u)
	}
	return tt.intern(fmt.Sprintf("(_ zero_extend %d)", w-a.sort.w), bvSort(w), a)
}

func (tt *TermTable) SignExt(a *Term, w int) *Term {
	if w == a.sort.w {
		return a
	}
	if a.isConst {
		return tt.BV(w, uint64(signExt(a.u, a.sort.w)))
	}
	return tt.intern(fmt.Sprintf("(_ sign_extend %d)", w-a.sort.w), bvSort(w), a)
}

func (tt *TermTable) Concat(a, b *Term) *Term {
	w := a.sort.w + b.sort.w
	if a.isConst && b.isConst && w <= 64 {
		return tt.BV(w, a.u<<uint(b.sort.w)|b.u)
	}
	return tt.intern("concat", bvSort(w), a, b)
}

// ---- floating point ----

func (tt *TermTable) FPFromBits(a *Term, w int) *Term {
	if a.isConst {
		tt.next++
		// keep as const
		k := "cf|" + strconv.Itoa(w) + "|" + strconv.FormatUint(a.u, 16)
		if t, ok := tt.tab[k]; ok {
			return t
		}
		t := &Term{id: tt.next, op: "const", sort: fpSort(w), isConst: true, u: a.u}
		tt.tab[k] = t
		return t
	}
	if w == 32 {
		return tt.intern("(_ to_fp 8 24)", fpSort(32), a)
	}
	return tt.intern("(_ to_fp 11 53)", fpSort(64), a)
}

func (tt *TermTable) FBin(op string, a, b *Term) *Term {
	if a.isConst && b.isConst && a.sort.w == 64 {
		x, y := a.fpConst(), b.fpConst()
		switch op {
		case "fp.add":
			return tt.FP(64, x+y)
		case "fp.sub":
			return tt.FP(64, x-y)
		case "fp.mul":
			return tt.FP(64, x*y)
		case "fp.div":
			return tt.FP(64, x/y)
		}
	}
	if (op == "fp.add" || op == "fp.mul") && a.id > b.id {
		a, b = b, a // IEEE addition and multiplication commute
	}
	return tt.intern(op+" RNE", a.sort, a, b)
}

func (tt *TermTable) FCmp(op string, a, b *Term) *Term {
	if a.isConst && b.isConst {
		x, y := a.fpConst(), b.fpConst()
		switch op {
		case "fp.eq":
			return tt.Bool(x == y)
		case "fp.lt":
			return tt.Bool(x < y)
		case "fp.leq":
			return tt.Bool(x <= y)
		case "fp.gt":
			return tt.Bool(x > y)
		case "fp.geq":
			return tt.Bool(x >= y)
		}
	}
	return tt.intern(op, boolSort, a, b)
}

// FRound is fp.roundToIntegral with the given SMT-LIB rounding mode
// (RNA = math.Round, RTN = math.Floor, RTP = math.Ceil, RTZ = math.Trunc).
func (tt *TermTable) FRound(mode string, a *Term) *Term {
	if a.isConst && a.sort.w == 64 {
		x := a.fpConst()
		switch mode {
		case "RNA":
			return tt.FP(64, math.Round(x))
		case "RTN":
			return tt.FP(64, math.Floor(x))
		case "RTP":
			return tt.FP(64, math.Ceil(x))
		case "RTZ":
			return tt.FP(64, math.Trunc(x))
		}
	}
	return tt.intern("fp.roundToIntegral "+mode, a.sort, a)
}

func (tt *TermTable) FNeg(a *Term) *Term {
	if a.isConst {
		return tt.FP(a.sort.w, -a.fpConst())
	}
	return tt.intern("fp.neg", a.sort, a)
}

func (tt *TermTable) FIsNaN(a *Term) *Term {
	if a.isConst {
		return tt.Bool(math.IsNaN(a.fpConst()))
	}
	return tt.intern("fp.isNaN", boolSort, a)
}

func (tt *TermTable) FIsInf(a *Term) *Term {
	if a.isConst {
		return tt.Bool(math.IsInf(a.fpConst(), 0))
	}
	return tt.intern("fp.isInfinite", boolSort, a)
}

// UF application; the declaration is emitted on first use.
func (tt *TermTable) UF(name string, res Sort, args ...*Term) *Term {
	if _, ok := tt.ufs[name]; !ok {
		var sb strings.Builder
		sb.WriteString("(declare-fun " + name + " (")
		for i, a := range args {
			if i > 0 {
				sb.WriteByte(' ')
			}
			sb.WriteString(a.sort.String())
		}
		sb.WriteString(") " + res.String() + ")")
		tt.ufs[name] = sb.String()
		tt.ufOrd = append(tt.ufOrd, name)
	}
	t := tt.intern("uf:"+name, res, args...)
	t.name = name
	return t
}

// ---- emission ----

func (t *Term) ref() string {
	if t.isConst {
		switch t.sort.k {
		case sBool:
			if t.u == 1 {
				return "true"
			}
			return "false"
		case sBV:
			if t.sort.w%4 == 0 {
				return fmt.Sprintf("#x%0*x", t.sort.w/4, t.u)
			}
			return fmt.Sprintf("#b%0*b", t.sort.w, t.u)
		case sFP:
			if t.sort.w == 32 {
				return fmt.Sprintf("((_ to_fp 8 24) #x%08x)", uint32(t.u))
			}
			return fmt.Sprintf("((_ to_fp 11 53) #x%016x)", t.u)
		}
	}
	if t.op == "var" {
		return t.name
	}
	return "t" + strconv.Itoa(t.id)
}

// emitDefs writes declarations/definitions needed for t that have not been
// emitted in the current solver scope yet.
func (tt *TermTable) emitDefs(t *Term, sb *strings.Builder, emittedUF map[string]bool) {
	if t.defined || t.isConst {
		return
	}
	// iterative DFS to avoid deep recursion
	type fr struct {
		t *Term
		i int
	}
	st := []fr{{t, 0}}
	for len(st) > 0 {
		top := &st[len(st)-1]
		if top.t.defined || top.t.isConst {
			st = st[:len(st)-1]
			continue
		}
		if top.i < len(top.t.args) {
			c := top.t.args[top.i]
			top.i++
			if !c.defined && !c.isConst {
				st = append(st, fr{c, 0})
			}
			continue
		}
		x := top.t
		st = st[:len(st)-1]
		x.defined = true
		if x.op == "var" {
			fmt.Fprintf(sb, "(declare-const %s %s)\n", x.name, x.sort)
			continue
		}
		op := x.op
		if strings.HasPrefix(op, "uf:") {
			nm := op[3:]
			if !emittedUF[nm] {
				emittedUF[nm] = true
				sb.WriteString(tt.ufs[nm])
				sb.WriteByte('\n')
			}
			op = nm
		}
		if len(x.args) == 0 {
			fmt.Fprintf(sb, "(define-fun t%d () %s %s)\n", x.id, x.sort, op)
			continue
		}
		fmt.Fprintf(sb, "(define-fun t%d () %s (%s", x.id, x.sort, op)
		for _, a := range x.args {
			sb.WriteByte(' ')
			sb.WriteString(a.ref())
		}
		sb.WriteString("))\n")
	}
}

var _ = bits.Len
