package symexec

// numStr: the decimal spelling of a (symbolic) non-negative or negative
// int64, kept opaque.  It supports exactly what flag parsing does with such a
// string: comparison with "", substring tests for non-digit characters, len,
// strconv.ParseInt / ParseFloat / Atoi.  Natively the harness intrinsic
// vsymDecimal formats the integer with strconv.FormatInt.

import (
	"go/types"
	"strconv"
	"strings"
)

type numStr struct {
	n value // int64 or sym Int64
}

func (x *pathCtx) numStrLen(s numStr) value {
	if c, ok := s.n.(int64); ok {
		return len(strconv.FormatInt(c, 10))
	}
	tt := x.tt
	t := s.n.(sym).t
	neg := tt.BVCmp("bvslt", t, tt.BV(64, 0))
	abs := tt.Ite(neg, tt.BVNeg(t), t)
	l := tt.BV(64, 1)
	p := uint64(10)
	for d := 1; d <= 18; d++ {
		l = tt.BVBin("bvadd", l, tt.Ite(tt.BVCmp("bvule", tt.BV(64, p), abs), tt.BV(64, 1), tt.BV(64, 0)))
		p *= 10
	}
	l = tt.BVBin("bvadd", l, tt.Ite(neg, tt.BV(64, 1), tt.BV(64, 0)))
	return x.lower(l, types.Int)
}

// numStrEq compares with a concrete string.
func (x *pathCtx) numStrEq(s numStr, c string) value {
	n, err := strconv.ParseInt(c, 10, 64)
	if err != nil || strconv.FormatInt(n, 10) != c {
		return false
	}
	return x.symEquals(types.Typ[types.Int64], s.n, n)
}

func onlyNumChars(s string) bool {
	for i := 0; i < len(s); i++ {
		if !(s[i] >= '0' && s[i] <= '9' || s[i] == '-') {
			return false
		}
	}
	return true
}

func init() {
	wrapContains := func(name string, any bool) {
		prev := externals[name]
		externals[name] = func(fr *frame, args []value) value {
			if _, ok := args[0].(numStr); ok {
				sub := concStr(args[1], name)
				if any {
					if strings.ContainsAny("0123456789-", sub) {
						panic(unsupported(name + " on a decimal spelling with digit characters"))
					}
					return false
				}
				if !onlyNumChars(sub) || sub == "" {
					return sub == ""
				}
				panic(unsupported(name + " on a decimal spelling with a numeric needle"))
			}
			if prev == nil {
				return interpretInstead{}
			}
			return prev(fr, args)
		}
	}
	wrapContains("strings.Contains", false)
	wrapContains("strings.ContainsAny", true)
	for _, name := range []string{"strconv.ParseInt", "strconv.ParseFloat", "strconv.Atoi", "strconv.ParseUint"} {
		name := name
		prev := externals[name]
		externals[name] = func(fr *frame, args []value) value {
			if s, ok := args[0].(numStr); ok {
				switch name {
				case "strconv.ParseFloat":
					if c, ok := s.n.(int64); ok {
						return tuple{float64(c), iface{}}
					}
					return tuple{fr.i.x.symConv(types.Float64, s.n.(sym)), iface{}}
				case "strconv.Atoi":
					return tuple{conv(fr.i, types.Typ[types.Int], types.Typ[types.Int64], s.n), iface{}}
				case "strconv.ParseUint":
					panic(unsupported("ParseUint of a decimal spelling"))
				}
				return tuple{s.n, iface{}}
			}
			r := prev(fr, args)
			return r
		}
	}
}
