package symexec

// Symbolic leaves: integers / bools / floats as SMT terms, strings as byte
// vectors of concrete length, time.Time as nanoseconds since the epoch.

import (
	"fmt"
	"go/token"
	"go/types"
	"math"
)

// sym is a symbolic scalar.  k is the Go basic kind it stands for.
type sym struct {
	t *Term
	k types.BasicKind
}

// symStr is a string (or the contents of one) of concrete length whose
// bytes are byte or sym{Uint8}.  Invariant: at least one byte is symbolic.
type symStr struct {
	b []value
}

// timeVal models time.Time: ns since the Unix epoch (int64 or sym Int64);
// zero marks the zero Time (year 1), which sorts before every other instant.
type timeVal struct {
	ns   value
	zero bool
}

func kindBits(k types.BasicKind) (w int, signed bool) {
	switch k {
	case types.Int8:
		return 8, true
	case types.Int16:
		return 16, true
	case types.Int32:
		return 32, true
	case types.Int64, types.Int:
		return 64, true
	case types.Uint8:
		return 8, false
	case types.Uint16:
		return 16, false
	case types.Uint32:
		return 32, false
	case types.Uint64, types.Uint, types.Uintptr:
		return 64, false
	}
	return 0, false
}

func isFloatKind(k types.BasicKind) bool { return k == types.Float32 || k == types.Float64 }

func kindOfValue(v value) (types.BasicKind, bool) {
	switch v := v.(type) {
	case sym:
		return v.k, true
	case bool:
		return types.Bool, true
	case int:
		return types.Int, true
	case int8:
		return types.Int8, true
	case int16:
		return types.Int16, true
	case int32:
		return types.Int32, true
	case int64:
		return types.Int64, true
	case uint:
		return types.Uint, true
	case uint8:
		return types.Uint8, true
	case uint16:
		return types.Uint16, true
	case uint32:
		return types.Uint32, true
	case uint64:
		return types.Uint64, true
	case uintptr:
		return types.Uintptr, true
	case float32:
		return types.Float32, true
	case float64:
		return types.Float64, true
	}
	return 0, false
}

// lift turns a concrete or symbolic scalar into a term.
func (x *pathCtx) lift(v value) *Term {
	switch v := v.(type) {
	case sym:
		return v.t
	case bool:
		return x.tt.Bool(v)
	case float32:
		return x.tt.FP(32, float64(v))
	case float64:
		return x.tt.FP(64, v)
	}
	k, ok := kindOfValue(v)
	if !ok {
		panic(unsupported(fmt.Sprintf("lift of %T", v)))
	}
	w, _ := kindBits(k)
	return x.tt.BV(w, uint64(asInt64(v)))
}

// lower turns a term back into a value, concretising constants.
func (x *pathCtx) lower(t *Term, k types.BasicKind) value {
	if !t.isConst {
		return sym{t, k}
	}
	switch k {
	case types.Bool:
		return t.u == 1
	case types.Float32:
		return math.Float32frombits(uint32(t.u))
	case types.Float64:
		return math.Float64frombits(t.u)
	case types.Int:
		return int(t.u)
	case types.Int8:
		return int8(t.u)
	case types.Int16:
		return int16(t.u)
	case types.Int32:
		return int32(t.u)
	case types.Int64:
		return int64(t.u)
	case types.Uint:
		return uint(t.u)
	case types.Uint8:
		return uint8(t.u)
	case types.Uint16:
		return uint16(t.u)
	case types.Uint32:
		return uint32(t.u)
	case types.Uint64:
		return uint64(t.u)
	case types.Uintptr:
		return uintptr(t.u)
	}
	panic(unsupported(fmt.Sprintf("lower kind %v", k)))
}

func isSym(v value) bool {
	switch v.(type) {
	case sym, symStr, numStr:
		return true
	}
	return false
}

// mkStr normalises a byte vector into string or symStr.
func mkStr(b []value) value {
	allc := true
	for _, e := range b {
		if _, ok := e.(byte); !ok {
			allc = false
			break
		}
	}
	if allc {
		bs := make([]byte, len(b))
		for i, e := range b {
			bs[i] = e.(byte)
		}
		return string(bs)
	}
	return symStr{b}
}

func strBytes(v value) []value {
	switch v := v.(type) {
	case string:
		r := make([]value, len(v))
		for i := 0; i < len(v); i++ {
			r[i] = v[i]
		}
		return r
	case symStr:
		return v.b
	}
	panic(unsupported(fmt.Sprintf("strBytes of %T", v)))
}

func strLen(v value) int {
	switch v := v.(type) {
	case string:
		return len(v)
	case symStr:
		return len(v.b)
	}
	panic(fmt.Sprintf("strLen of %T", v))
}

// strEq builds the equality of two strings as a value (bool or sym Bool).
func (x *pathCtx) strEq(a, b value) value {
	if as, ok := a.(string); ok {
		if bs, ok := b.(string); ok {
			return as == bs
		}
	}
	ab, bb := strBytes(a), strBytes(b)
	if len(ab) != len(bb) {
		return false
	}
	acc := x.tt.Bool(true)
	for i := range ab {
		acc = x.tt.And(acc, x.tt.Eq(x.lift(ab[i]), x.lift(bb[i])))
		if c, ok := acc.constBool(); ok && !c {
			return false
		}
	}
	return x.lower(acc, types.Bool)
}

// strLess builds a < b (lexicographic, bytewise).
func (x *pathCtx) strLess(a, b value, orEq bool) value {
	ab, bb := strBytes(a), strBytes(b)
	// from the end: less_i = a[i]<b[i] || (a[i]==b[i] && less_{i+1})
	n := len(ab)
	if len(bb) < n {
		n = len(bb)
	}
	var tail *Term
	if len(ab) < len(bb) {
		tail = x.tt.Bool(true)
	} else if len(ab) == len(bb) {
		tail = x.tt.Bool(orEq)
	} else {
		tail = x.tt.Bool(false)
	}
	for i := n - 1; i >= 0; i-- {
		ai, bi := x.lift(ab[i]), x.lift(bb[i])
		tail = x.tt.Or(x.tt.BVCmp("bvult", ai, bi), x.tt.And(x.tt.Eq(ai, bi), tail))
	}
	return x.lower(tail, types.Bool)
}

func (x *pathCtx) symBinop(op token.Token, t types.Type, a, b value) value {
	tt := x.tt
	// decimal spellings
	if na, ok := a.(numStr); ok {
		if c, ok := b.(string); ok && (op == token.EQL || op == token.NEQ) {
			r := x.numStrEq(na, c)
			if op == token.NEQ {
				return x.not(r)
			}
			return r
		}
		panic(unsupported("operation on a decimal spelling: " + op.String()))
	}
	if nb, ok := b.(numStr); ok {
		if c, ok := a.(string); ok && (op == token.EQL || op == token.NEQ) {
			r := x.numStrEq(nb, c)
			if op == token.NEQ {
				return x.not(r)
			}
			return r
		}
		panic(unsupported("operation on a decimal spelling: " + op.String()))
	}
	// strings
	_, as := a.(symStr)
	_, bs := b.(symStr)
	if as || bs {
		switch op {
		case token.ADD:
			return mkStr(append(append([]value{}, strBytes(a)...), strBytes(b)...))
		case token.EQL:
			return x.strEq(a, b)
		case token.NEQ:
			return x.not(x.strEq(a, b))
		case token.LSS:
			return x.strLess(a, b, false)
		case token.LEQ:
			return x.strLess(a, b, true)
		case token.GTR:
			return x.strLess(b, a, false)
		case token.GEQ:
			return x.strLess(b, a, true)
		}
		panic(unsupported("string binop " + op.String()))
	}
	ka, ok1 := kindOfValue(a)
	kb, ok2 := kindOfValue(b)
	if !ok1 || !ok2 {
		panic(unsupported(fmt.Sprintf("symBinop %T %s %T", a, op, b)))
	}
	k := ka
	if sa, ok := a.(sym); ok {
		k = sa.k
	}
	ta := x.lift(a)
	switch {
	case k == types.Bool:
		tb := x.lift(b)
		switch op {
		case token.EQL:
			return x.lower(tt.Eq(ta, tb), types.Bool)
		case token.NEQ:
			return x.lower(tt.Not(tt.Eq(ta, tb)), types.Bool)
		}
	case isFloatKind(k):
		tb := x.lift(b)
		switch op {
		case token.ADD:
			return x.lower(x.fpArith("fp.add", ta, tb), k)
		case token.SUB:
			return x.lower(x.fpArith("fp.sub", ta, tb), k)
		case token.MUL:
			return x.lower(x.fpArith("fp.mul", ta, tb), k)
		case token.QUO:
			return x.lower(x.fpArith("fp.div", ta, tb), k)
		case token.EQL:
			return x.lower(tt.FCmp("fp.eq", ta, tb), types.Bool)
		case token.NEQ:
			return x.lower(tt.Not(tt.FCmp("fp.eq", ta, tb)), types.Bool)
		case token.LSS:
			return x.lower(tt.FCmp("fp.lt", ta, tb), types.Bool)
		case token.LEQ:
			return x.lower(tt.FCmp("fp.leq", ta, tb), types.Bool)
		case token.GTR:
			return x.lower(tt.FCmp("fp.gt", ta, tb), types.Bool)
		case token.GEQ:
			return x.lower(tt.FCmp("fp.geq", ta, tb), types.Bool)
		}
	default:
		w, signed := kindBits(k)
		if w == 0 {
			panic(unsupported(fmt.Sprintf("symBinop kind %v", k)))
		}
		if op == token.SHL || op == token.SHR {
			wb, sb := kindBits(kb)
			tb := x.lift(b)
			if sb {
				// negative shift count panics
				neg := tt.BVCmp("bvslt", tb, tt.BV(wb, 0))
				if x.decideBool(neg, "negative shift") {
					panic("negative shift amount")
				}
			}
			var cnt *Term
			switch {
			case wb == w:
				cnt = tb
			case wb < w:
				cnt = tt.ZeroExt(tb, w)
			default:
				big := tt.BVCmp("bvule", tt.BV(wb, uint64(w)), tb)
				cnt = tt.Ite(big, tt.BV(w, uint64(w)), tt.Extract(w-1, 0, tb))
			}
			switch {
			case op == token.SHL:
				return x.lower(tt.BVBin("bvshl", ta, cnt), k)
			case signed:
				return x.lower(tt.BVBin("bvashr", ta, cnt), k)
			default:
				return x.lower(tt.BVBin("bvlshr", ta, cnt), k)
			}
		}
		tb := x.lift(b)
		if tb.sort != ta.sort {
			panic(unsupported(fmt.Sprintf("symBinop width mismatch %v %v %s", ka, kb, op)))
		}
		switch op {
		case token.ADD:
			return x.lower(tt.BVBin("bvadd", ta, tb), k)
		case token.SUB:
			return x.lower(tt.BVBin("bvsub", ta, tb), k)
		case token.MUL:
			return x.lower(x.bvHard("bvmul", ta, tb), k)
		case token.QUO, token.REM:
			if x.decideBool(tt.Eq(tb, tt.BV(w, 0)), "division by zero") {
				panic(runtimeError("integer divide by zero"))
			}
			var o string
			switch {
			case op == token.QUO && signed:
				o = "bvsdiv"
			case op == token.QUO:
				o = "bvudiv"
			case signed:
				o = "bvsrem"
			default:
				o = "bvurem"
			}
			return x.lower(x.bvHard(o, ta, tb), k)
		case token.AND:
			return x.lower(tt.BVBin("bvand", ta, tb), k)
		case token.OR:
			return x.lower(tt.BVBin("bvor", ta, tb), k)
		case token.XOR:
			return x.lower(tt.BVBin("bvxor", ta, tb), k)
		case token.AND_NOT:
			return x.lower(tt.BVBin("bvand", ta, tt.BVNot(tb)), k)
		case token.EQL:
			return x.lower(tt.Eq(ta, tb), types.Bool)
		case token.NEQ:
			return x.lower(tt.Not(tt.Eq(ta, tb)), types.Bool)
		case token.LSS:
			return x.lower(tt.BVCmp(pick(signed, "bvslt", "bvult"), ta, tb), types.Bool)
		case token.LEQ:
			return x.lower(tt.BVCmp(pick(signed, "bvsle", "bvule"), ta, tb), types.Bool)
		case token.GTR:
			return x.lower(tt.BVCmp(pick(signed, "bvslt", "bvult"), tb, ta), types.Bool)
		case token.GEQ:
			return x.lower(tt.BVCmp(pick(signed, "bvsle", "bvule"), tb, ta), types.Bool)
		}
	}
	panic(unsupported(fmt.Sprintf("symBinop %T %s %T", a, op, b)))
}

func pick(c bool, a, b string) string {
	if c {
		return a
	}
	return b
}

// bvHard emits mul/div/rem; with abstraction enabled and a non-trivial
// operand pattern the operation becomes an uninterpreted function (tier A).
func (x *pathCtx) bvHard(op string, a, b *Term) *Term {
	if a.isConst && b.isConst {
		return x.tt.BVBin(op, a, b)
	}
	if x.abstractArith {
		cst := b
		if a.isConst {
			cst = a
		}
		pow2 := cst.isConst && cst.u != 0 && cst.u&(cst.u-1) == 0
		small := cst.isConst && cst.u < 1<<16
		if !(pow2 || small) {
			return x.tt.UF(fmt.Sprintf("abs_%s_%d", op, a.sort.w), a.sort, a, b)
		}
	}
	return x.tt.BVBin(op, a, b)
}

func (x *pathCtx) fpArith(op string, a, b *Term) *Term {
	if a.isConst && b.isConst {
		return x.tt.FBin(op, a, b)
	}
	if x.abstractArith {
		return x.tt.UF(fmt.Sprintf("abs_%s_%d", sanitizeName(op), a.sort.w), a.sort, a, b)
	}
	return x.tt.FBin(op, a, b)
}

func sanitizeName(s string) string {
	b := []byte(s)
	for i, c := range b {
		if !(c >= 'a' && c <= 'z' || c >= 'A' && c <= 'Z' || c >= '0' && c <= '9') {
			b[i] = '_'
		}
	}
	return string(b)
}

func (x *pathCtx) not(v value) value {
	switch v := v.(type) {
	case bool:
		return !v
	case sym:
		return x.lower(x.tt.Not(v.t), types.Bool)
	}
	panic(fmt.Sprintf("not of %T", v))
}

func (x *pathCtx) symUnop(op token.Token, v sym) value {
	tt := x.tt
	switch op {
	case token.NOT:
		return x.lower(tt.Not(v.t), types.Bool)
	case token.SUB:
		if isFloatKind(v.k) {
			return x.lower(tt.FNeg(v.t), v.k)
		}
		return x.lower(tt.BVNeg(v.t), v.k)
	case token.XOR:
		return x.lower(tt.BVNot(v.t), v.k)
	}
	panic(unsupported("symUnop " + op.String()))
}

// symConv converts a symbolic scalar between numeric kinds.
func (x *pathCtx) symConv(dst types.BasicKind, v sym) value {
	tt := x.tt
	if dst == v.k {
		return v
	}
	sw, ssigned := kindBits(v.k)
	dw, dsigned := kindBits(dst)
	switch {
	case sw > 0 && dw > 0:
		var t *Term
		switch {
		case dw == sw:
			t = v.t
		case dw < sw:
			t = tt.Extract(dw-1, 0, v.t)
		case ssigned:
			t = tt.SignExt(v.t, dw)
		default:
			t = tt.ZeroExt(v.t, dw)
		}
		return x.lower(t, dst)
	case sw > 0 && isFloatKind(dst):
		fw := 64
		if dst == types.Float32 {
			fw = 32
		}
		opn := "to_fp"
		if !ssigned {
			opn = "to_fp_unsigned"
		}
		eb, sb := 11, 53
		if fw == 32 {
			eb, sb = 8, 24
		}
		if x.abstractArith {
			return x.lower(tt.UF(fmt.Sprintf("abs_i2f_%d_%d_%v", sw, fw, ssigned), fpSort(fw), v.t), dst)
		}
		return x.lower(tt.intern(fmt.Sprintf("(_ %s %d %d) RNE", opn, eb, sb), fpSort(fw), v.t), dst)
	case isFloatKind(v.k) && dw > 0:
		if x.abstractArith {
			return x.lower(tt.UF(fmt.Sprintf("abs_f2i_%d_%d_%v", v.t.sort.w, dw, dsigned), bvSort(dw), v.t), dst)
		}
		opn := "fp.to_sbv"
		if !dsigned {
			opn = "fp.to_ubv"
		}
		conv := tt.intern(fmt.Sprintf("(_ %s %d) RTZ", opn, dw), bvSort(dw), v.t)
		if dsigned && dw == 64 && v.t.sort.w == 64 {
			// SMT-LIB leaves fp.to_sbv unspecified for NaN and out-of-range
			// operands; Go leaves it implementation-defined; the machine the
			// counterexamples are replayed on (amd64, CVTTSD2SQ) yields the
			// "integer indefinite" value 0x8000000000000000.  -2^63 <= x < 2^63.
			lo, hi := tt.FP(64, -9223372036854775808.0), tt.FP(64, 9223372036854775808.0)
			inRange := tt.And(tt.FCmp("fp.leq", lo, v.t), tt.FCmp("fp.lt", v.t, hi))
			conv = tt.Ite(inRange, conv, tt.BV(64, 0x8000000000000000))
		}
		return x.lower(conv, dst)
	case isFloatKind(v.k) && isFloatKind(dst):
		if dst == types.Float64 {
			return x.lower(tt.intern("(_ to_fp 11 53) RNE", fpSort(64), v.t), dst)
		}
		return x.lower(tt.intern("(_ to_fp 8 24) RNE", fpSort(32), v.t), dst)
	}
	panic(unsupported(fmt.Sprintf("symConv %v -> %v", v.k, dst)))
}

// symEquals is Go's == for type t over possibly symbolic operands; the
// result is bool or sym Bool.
func (x *pathCtx) symEquals(t types.Type, a, b value) value {
	switch av := a.(type) {
	case sym:
		return x.symBinop(token.EQL, t, a, b)
	case symStr:
		return x.strEq(a, b)
	case string:
		if _, ok := b.(symStr); ok {
			return x.strEq(a, b)
		}
		return av == b.(string)
	case timeVal:
		bv := b.(timeVal)
		if av.zero || bv.zero {
			return av.zero == bv.zero
		}
		return x.symEquals(types.Typ[types.Int64], av.ns, bv.ns)
	case structure:
		bv := b.(structure)
		ts := t.Underlying().(*types.Struct)
		acc := value(true)
		for i := 0; i < ts.NumFields(); i++ {
			if ts.Field(i).Name() == "_" {
				continue
			}
			acc = x.and(acc, x.symEquals(ts.Field(i).Type(), av[i], bv[i]))
			if c, ok := acc.(bool); ok && !c {
				return false
			}
		}
		return acc
	case array:
		bv := b.(array)
		te := t.Underlying().(*types.Array).Elem()
		acc := value(true)
		for i := range av {
			acc = x.and(acc, x.symEquals(te, av[i], bv[i]))
			if c, ok := acc.(bool); ok && !c {
				return false
			}
		}
		return acc
	case iface:
		bv := b.(iface)
		if !sameType(av.t, bv.t) {
			return false
		}
		if av.t == nil {
			return true
		}
		return x.symEquals(av.t, av.v, bv.v)
	}
	if isSym(b) {
		return x.symBinop(token.EQL, t, a, b)
	}
	return equals(t, a, b)
}

func (x *pathCtx) and(a, b value) value {
	if c, ok := a.(bool); ok {
		if !c {
			return false
		}
		return b
	}
	if c, ok := b.(bool); ok {
		if !c {
			return false
		}
		return a
	}
	return x.lower(x.tt.And(a.(sym).t, b.(sym).t), types.Bool)
}

func (x *pathCtx) or(a, b value) value {
	if c, ok := a.(bool); ok {
		if c {
			return true
		}
		return b
	}
	if c, ok := b.(bool); ok {
		if c {
			return true
		}
		return a
	}
	return x.lower(x.tt.Or(a.(sym).t, b.(sym).t), types.Bool)
}

// containsSym reports whether v (deeply, without following pointers)
// contains a symbolic leaf.
func containsSym(v value) bool {
	switch v := v.(type) {
	case sym, symStr:
		return true
	case timeVal:
		_, s := v.ns.(sym)
		return s
	case structure:
		for _, e := range v {
			if containsSym(e) {
				return true
			}
		}
	case array:
		for _, e := range v {
			if containsSym(e) {
				return true
			}
		}
	case iface:
		return containsSym(v.v)
	}
	return false
}

// concretizeInt forces v to a concrete integer by case-splitting over
// [lo, hi]; values outside the range take the `out` continuation (panic).
func (x *pathCtx) concretizeInt(v value, lo, hi int64, what string) (int64, bool) {
	s, ok := v.(sym)
	if !ok {
		n := asInt64(v)
		return n, n >= lo && n <= hi
	}
	if hi-lo > 4096 {
		panic(unsupported("concretize range too wide for " + what))
	}
	w, signed := kindBits(s.k)
	alts := make([]*Term, 0, hi-lo+2)
	for i := lo; i <= hi; i++ {
		alts = append(alts, x.tt.Eq(s.t, x.tt.BV(w, uint64(i))))
	}
	// out of range
	var out *Term
	if signed {
		out = x.tt.Or(x.tt.BVCmp("bvslt", s.t, x.tt.BV(w, uint64(lo))), x.tt.BVCmp("bvslt", x.tt.BV(w, uint64(hi)), s.t))
	} else {
		l := lo
		if l < 0 {
			l = 0
		}
		out = x.tt.Or(x.tt.BVCmp("bvult", s.t, x.tt.BV(w, uint64(l))), x.tt.BVCmp("bvult", x.tt.BV(w, uint64(hi)), s.t))
	}
	alts = append(alts, out)
	i := x.decide(alts, what)
	if i == len(alts)-1 {
		return 0, false
	}
	return lo + int64(i), true
}

// concretizeByModel forces an integer term to a concrete value by asking the
// solver for a model, evaluating the term under it, and splitting on
// "term == that value" / "term != that value".  The second branch repeats
// the procedure when it is feasible, so a term with k possible values costs
// k paths; a uniquely determined term costs one unsat query.
func (x *pathCtx) concretizeByModel(v value, what string) int64 {
	s, ok := v.(sym)
	if !ok {
		return asInt64(v)
	}
	w, signed := kindBits(s.k)
	x.solver.define(s.t)
	for _, in := range x.inputs {
		for _, t := range in.vars {
			x.solver.define(t)
		}
	}
	var m uint64
	if x.concolic != nil {
		m = evalTerm(s.t, x.concolic, map[*Term]uint64{})
	} else if len(x.decisions) < len(x.prefix) {
		// replaying: the recorded decision tells which branch; the value is
		// recomputed from a model of the path condition restricted by it
		r, model, _ := x.solver.Check(nil, x.ex.opts.AssertTimeout, true)
		if r != Sat {
			panic(abortPath{"concretizeByModel: no model on replay"})
		}
		m = evalTerm(s.t, model, map[*Term]uint64{})
	} else {
		r, model, note := x.solver.Check(nil, x.ex.opts.AssertTimeout, true)
		if r != Sat {
			if r == Unsat {
				panic(abortPath{"infeasible path"})
			}
			panic(unsupported("concretizeByModel(" + what + "): solver " + r.String() + " " + note))
		}
		m = evalTerm(s.t, model, map[*Term]uint64{})
	}
	x.modelSplits++
	if x.modelSplits > 6 {
		panic(budgetErr{msg: "more than 6 distinct values at concretize-by-model sites (" + what + ")"})
	}
	eq := x.tt.Eq(s.t, x.tt.BV(w, m))
	if x.decide([]*Term{eq, x.tt.Not(eq)}, "concretize "+what) == 0 {
		if signed {
			return signExt(m, w)
		}
		return int64(m)
	}
	return x.concretizeByModel(v, what)
}

// normaliseStrArgs replaces string views whose bytes are all concrete (views
// created by unsafe.String alias a byte slice and stay symStr) by ordinary
// strings before a library model sees them: a model reads its arguments at
// call time, so the snapshot is exact.
func normaliseStrArgs(args []value) []value {
	var out []value
	for k, a := range args {
		if s, ok := a.(symStr); ok {
			if c, ok := mkStr(s.b).(string); ok {
				if out == nil {
					out = append([]value{}, args...)
				}
				out[k] = c
			}
		}
	}
	if out == nil {
		return args
	}
	return out
}
