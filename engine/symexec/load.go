package symexec

import (
	"fmt"
	"go/types"
	"os"
	"strings"

	"golang.org/x/tools/go/packages"
	"golang.org/x/tools/go/ssa"
	"golang.org/x/tools/go/ssa/ssautil"
)

type Loaded struct {
	Prog   *ssa.Program
	Pkg    *ssa.Package
	Sizes  types.Sizes
	NumPkg int
}

// LoadPackage type-checks pkgPath (relative to repoDir, e.g.
// "./internal/dockerlog") from the current working tree with the given
// overlay and builds its SSA program lazily.
func LoadPackage(repoDir, pkgPath string, overlay map[string][]byte, tags string) (*Loaded, error) {
	cfg := &packages.Config{
		Mode:    packages.LoadAllSyntax,
		Dir:     repoDir,
		Overlay: overlay,
		Env:     append(os.Environ(), "GOFLAGS=-mod=mod", "GOPROXY=off", "GOSUMDB=off", "GOTOOLCHAIN=local"),
	}
	if tags != "" {
		cfg.BuildFlags = []string{"-tags=" + tags}
	}
	initial, err := packages.Load(cfg, pkgPath)
	if err != nil {
		return nil, err
	}
	if len(initial) != 1 {
		return nil, fmt.Errorf("expected one package for %s, got %d", pkgPath, len(initial))
	}
	var errs []string
	packages.Visit(initial, nil, func(p *packages.Package) {
		for _, e := range p.Errors {
			errs = append(errs, e.Error())
		}
	})
	if len(errs) > 0 {
		if len(errs) > 10 {
			errs = errs[:10]
		}
		return nil, fmt.Errorf("package errors:\n%s", strings.Join(errs, "\n"))
	}
	prog, pkgs := ssautil.AllPackages(initial, ssa.InstantiateGenerics)
	n := 0
	packages.Visit(initial, nil, func(p *packages.Package) { n++ })
	// Build every function body before the workers start: lazy building
	// from several interpreter goroutines would race on Function.Blocks.
	prog.Build()
	return &Loaded{Prog: prog, Pkg: pkgs[0], Sizes: initial[0].TypesSizes, NumPkg: n}, nil
}
