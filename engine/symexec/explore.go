package symexec

// Path exploration by decision-prefix re-execution.

import (
	"fmt"
	"go/token"
	"go/types"
	"os"
	"runtime"
	"sort"
	"strings"
	"sync"
	"time"

	"golang.org/x/tools/go/ssa"
)

type unsupportedErr struct{ msg string }

func unsupported(msg string) unsupportedErr { return unsupportedErr{msg} }

type abortPath struct{ reason string }
type budgetErr struct {
	msg  string
	hang bool // loop budget: a candidate non-termination
}
type assertStop struct{ msg string }

type rtError struct{ msg string }

func (e rtError) Error() string       { return "runtime error: " + e.msg }
func (e rtError) RuntimeError()       {}
func runtimeError(msg string) rtError { return rtError{msg} }

// engineAbort reports whether a recovered panic value belongs to the engine
// (and must not be visible to the target program's defers / recover).
func engineAbort(p interface{}) bool {
	switch p.(type) {
	case unsupportedErr, abortPath, budgetErr, assertStop:
		return true
	}
	return false
}

type InputRec struct {
	Name string `json:"name"`
	Kind string `json:"kind"` // int64 uint64 int byte bool float64 bytes choice
	N    int    `json:"n,omitempty"`
	vars []*Term
}

type Violation struct {
	Harness  string            `json:"harness"`
	Kind     string            `json:"kind"` // assert | panic | finding
	Msg      string            `json:"msg"`
	KnownID  string            `json:"known_id,omitempty"`
	Pos      string            `json:"pos,omitempty"`
	Model    map[string]string `json:"model"`
	Path     []int             `json:"path"`
	Paths    int               `json:"paths"` // number of paths that hit the same key
	Stack    string            `json:"stack,omitempty"`
	Replayed string            `json:"replayed,omitempty"` // confirmed | not-reproduced | skipped
	File     string            `json:"file,omitempty"`
	Gate     []int             `json:"gate,omitempty"` // goroutine completion order
}

func (v *Violation) Key() string { return v.Kind + "|" + v.KnownID + "|" + v.Msg }

type Options struct {
	Workers         int
	MaxPaths        int
	MaxInstr        int64
	MaxDepth        int
	FeasTimeoutMs   int
	AssertTimeout   int
	SolverKind      string
	Trace           bool
	AbstractArith   bool
	MaxModelsPerKey int
	BudgetSeconds   int
	Tier            int
}

func DefaultOptions() Options {
	return Options{Workers: runtime.NumCPU(), MaxPaths: 400000, MaxInstr: 20_000_000, MaxDepth: 4000,
		FeasTimeoutMs: 10000, AssertTimeout: 60000, SolverKind: SolverKind(), MaxModelsPerKey: 3}
}

type Stats struct {
	Paths          int            `json:"paths"`
	PathsOK        int            `json:"paths_completed"`
	PathsAssume    int            `json:"paths_dropped_by_assume"`
	PathsPanic     int            `json:"paths_panic"`
	Decisions      int64          `json:"decisions"`
	Queries        int            `json:"solver_queries"`
	Sat            int            `json:"sat"`
	Unsat          int            `json:"unsat"`
	Unknown        int            `json:"unknown"`
	SolverSec      float64        `json:"solver_seconds"`
	AssertChecks   int            `json:"assertion_queries"`
	AssertProved   int            `json:"assertions_unsat"`
	AssertConcrete int            `json:"assertions_concrete"`
	Reach          map[string]int `json:"reach"`
	Instr          int64          `json:"instructions"`
	WallSec        float64        `json:"wall_seconds"`
	NontrivPaths   int            `json:"nontrivial_paths"`
	Funcs          map[string]int `json:"-"`
}

type Result struct {
	Harness      string
	Stats        Stats
	Violations   []*Violation
	Inconclusive []string
	SamplePC     string
	SampleModel  map[string]string
	RepoFuncs    []string
	LibFuncs     []string
	Externals    []string
}

type Explorer struct {
	prog   *ssa.Program
	fn     *ssa.Function
	opts   Options
	module string
	sizes  types.Sizes

	mu      sync.Mutex
	cond    *sync.Cond
	queue   [][]int
	active  int
	stop    bool
	res     *Result
	viol    map[string][]*Violation
	incon   map[string]bool
	funcs   map[string]int
	exts    map[string]int
	known   map[string]bool // open known finding ids (for vsymKnown)
	forks   map[string]int
	started time.Time
}

// pathCtx is the per-path symbolic state.
type pathCtx struct {
	ex             *Explorer
	tt             *TermTable
	solver         *Solver
	prefix         []int
	decisions      []int
	pc             []*Term
	nameCtr        map[string]int
	inputs         []*InputRec
	instr          int64
	abstractArith  bool
	mapOrderAll    bool
	schedAll       bool
	reach          []string
	touchedSym     bool
	assertsSeen    int
	newPrefixes    [][]int
	funcs          map[string]int
	exts           map[string]int
	goq            []pendingGo // pending goroutine bodies
	fresh          int
	now            value
	hashApps       []hashApp
	initIncomplete []string
	tier           int
	interp         *interpreter
	concolic       map[string]uint64 // test mode: decisions follow this assignment

	// goroutine model (DESIGN 3.5)
	goSeq       int // goroutines created so far
	gor         int // id (1-based) of the goroutine body being run, 0 = main
	locked      int // depth of Once/Mutex protected regions
	access      map[int]*accessSet
	schedOrder  []int // completion order chosen so far (0-based creation index)
	modelSplits int
	uniques     map[interface{}]*value
	pools       map[*value][]value
}

type accessSet struct {
	reads, writes map[*value]string
}

// noteAccess records a heap access by the running goroutine body.
func (x *pathCtx) noteAccess(p *value, write bool, fr *frame) {
	if x.gor == 0 || x.locked > 0 || p == nil {
		return
	}
	a := x.access[x.gor]
	if a == nil {
		a = &accessSet{reads: map[*value]string{}, writes: map[*value]string{}}
		if x.access == nil {
			x.access = map[int]*accessSet{}
		}
		x.access[x.gor] = a
	}
	where := ""
	if fr != nil && fr.cur != nil {
		where = fr.fn.String() + " " + fr.i.prog.Fset.Position(fr.cur.Pos()).String()
	}
	if write {
		if _, ok := a.writes[p]; !ok {
			a.writes[p] = where
		}
	} else if _, ok := a.reads[p]; !ok {
		a.reads[p] = where
	}
}

// checkRaces asserts that the write set of every goroutine body is disjoint
// from the read and write sets of every other body (which is what justifies
// running bodies atomically in some serial order).
func (x *pathCtx) checkRaces() {
	ids := make([]int, 0, len(x.access))
	for id := range x.access {
		ids = append(ids, id)
	}
	sort.Ints(ids)
	for _, a := range ids {
		for _, b := range ids {
			if a >= b {
				continue
			}
			A, B := x.access[a], x.access[b]
			for p, wa := range A.writes {
				if wb, ok := B.writes[p]; ok {
					x.violation("assert", "[race] two concurrently started goroutine bodies write the same memory cell", "", nil, wa+" / "+wb)
					return
				}
				if rb, ok := B.reads[p]; ok {
					x.violation("assert", "[race] a goroutine body reads a memory cell another body writes", "", nil, wa+" / "+rb)
					return
				}
			}
			for p, wb := range B.writes {
				if ra, ok := A.reads[p]; ok {
					x.violation("assert", "[race] a goroutine body reads a memory cell another body writes", "", nil, wb+" / "+ra)
					return
				}
			}
		}
	}
	x.access = nil
}

func NewExplorer(prog *ssa.Program, fn *ssa.Function, module string, sizes types.Sizes, opts Options) *Explorer {
	e := &Explorer{prog: prog, fn: fn, opts: opts, module: module, sizes: sizes,
		viol: map[string][]*Violation{}, incon: map[string]bool{}, funcs: map[string]int{}, exts: map[string]int{}, known: map[string]bool{}}
	e.cond = sync.NewCond(&e.mu)
	e.res = &Result{Harness: fn.Name()}
	e.res.Stats.Reach = map[string]int{}
	return e
}

func (e *Explorer) SetKnown(ids []string) {
	for _, id := range ids {
		e.known[id] = true
	}
}

func (e *Explorer) Run() *Result {
	t0 := time.Now()
	e.started = t0
	e.queue = [][]int{{}}
	var wg sync.WaitGroup
	n := e.opts.Workers
	if n < 1 {
		n = 1
	}
	for w := 0; w < n; w++ {
		wg.Add(1)
		go func() {
			defer wg.Done()
			e.worker()
		}()
	}
	wg.Wait()
	e.res.Stats.WallSec = time.Since(t0).Seconds()
	if e.opts.Trace && len(e.forks) > 0 {
		type kv struct {
			k string
			v int
		}
		var kvs []kv
		for k, v := range e.forks {
			kvs = append(kvs, kv{k, v})
		}
		sort.Slice(kvs, func(i, j int) bool { return kvs[i].v > kvs[j].v })
		for i, e := range kvs {
			if i >= 12 {
				break
			}
			fmt.Fprintf(os.Stderr, "  forks %7d  %s\n", e.v, e.k)
		}
	}
	for _, vs := range e.viol {
		e.res.Violations = append(e.res.Violations, vs...)
	}
	sort.Slice(e.res.Violations, func(i, j int) bool {
		a, b := e.res.Violations[i], e.res.Violations[j]
		if a.Key() != b.Key() {
			return a.Key() < b.Key()
		}
		return fmt.Sprint(a.Path) < fmt.Sprint(b.Path)
	})
	for k := range e.incon {
		e.res.Inconclusive = append(e.res.Inconclusive, k)
	}
	sort.Strings(e.res.Inconclusive)
	for f := range e.funcs {
		if strings.Contains(f, e.module) {
			e.res.RepoFuncs = append(e.res.RepoFuncs, f)
		} else {
			e.res.LibFuncs = append(e.res.LibFuncs, f)
		}
	}
	sort.Strings(e.res.RepoFuncs)
	sort.Strings(e.res.LibFuncs)
	for f := range e.exts {
		e.res.Externals = append(e.res.Externals, f)
	}
	sort.Strings(e.res.Externals)
	return e.res
}

func (e *Explorer) worker() {
	solver, err := NewSolver(e.opts.SolverKind)
	if err != nil {
		e.mu.Lock()
		e.incon["solver start: "+err.Error()] = true
		e.stop = true
		e.cond.Broadcast()
		e.mu.Unlock()
		return
	}
	defer func() {
		e.mu.Lock()
		e.res.Stats.Queries += solver.Queries
		e.res.Stats.Sat += solver.Sats
		e.res.Stats.Unsat += solver.Unsats
		e.res.Stats.Unknown += solver.Unks
		e.res.Stats.SolverSec += solver.Seconds
		e.mu.Unlock()
		solver.Close()
	}()
	for {
		e.mu.Lock()
		for len(e.queue) == 0 && e.active > 0 && !e.stop {
			e.cond.Wait()
		}
		if e.stop || (len(e.queue) == 0 && e.active == 0) {
			e.cond.Broadcast()
			e.mu.Unlock()
			return
		}
		if e.opts.BudgetSeconds > 0 && time.Since(e.started) > time.Duration(e.opts.BudgetSeconds)*time.Second {
			e.incon[fmt.Sprintf("time budget of %ds exhausted after %d paths", e.opts.BudgetSeconds, e.res.Stats.Paths)] = true
			e.stop = true
			e.cond.Broadcast()
			e.mu.Unlock()
			return
		}
		// LIFO keeps memory low and prefixes warm
		prefix := e.queue[len(e.queue)-1]
		e.queue = e.queue[:len(e.queue)-1]
		e.active++
		e.res.Stats.Paths++
		if e.res.Stats.Paths > e.opts.MaxPaths {
			e.incon[fmt.Sprintf("path budget %d exhausted", e.opts.MaxPaths)] = true
			e.stop = true
			e.active--
			e.cond.Broadcast()
			e.mu.Unlock()
			return
		}
		e.mu.Unlock()

		x := e.runPath(solver, prefix)

		e.mu.Lock()
		e.queue = append(e.queue, x.newPrefixes...)
		e.active--
		e.res.Stats.Decisions += int64(len(x.decisions))
		e.res.Stats.Instr += x.instr
		for _, r := range x.reach {
			e.res.Stats.Reach[r]++
		}
		for f, n := range x.funcs {
			e.funcs[f] += n
		}
		for f, n := range x.exts {
			e.exts[f] += n
		}
		e.cond.Broadcast()
		e.mu.Unlock()
	}
}

func (e *Explorer) noteInconclusive(msg string) {
	e.mu.Lock()
	e.incon[msg] = true
	e.mu.Unlock()
}

// runPath executes the harness once under the given decision prefix.
func (e *Explorer) runPath(solver *Solver, prefix []int) (x *pathCtx) {
	x = &pathCtx{ex: e, tt: newTermTable(), solver: solver, prefix: prefix, nameCtr: map[string]int{},
		abstractArith: e.opts.AbstractArith, funcs: map[string]int{}, exts: map[string]int{}}
	solver.BeginPath(x.tt)
	i := newInterp(e.prog, e.sizes, e.module, x)
	x.interp = i
	outcome := "ok"
	func() {
		defer func() {
			p := recover()
			if p == nil {
				return
			}
			switch p := p.(type) {
			case abortPath:
				outcome = "assume"
			case assertStop:
				outcome = "assert"
			case budgetErr:
				outcome = "budget"
				if p.hang {
					// candidate non-termination: confirmed only if the native
					// replay does not finish either
					x.violation("hang", "evaluation did not terminate within the engine budget ("+p.msg+")", "", nil, i.panicStack)
				} else {
					e.noteInconclusive("budget: " + p.msg)
				}
			case unsupportedErr:
				outcome = "unsupported"
				e.noteInconclusive("unsupported: " + p.msg)
				if e.opts.Trace {
					fmt.Fprintf(os.Stderr, "unsupported: %s\n%s\n", p.msg, i.panicStack)
				}
			case targetPanic:
				outcome = "panic"
				x.violation("panic", "panic: "+x.panicString(i, p.v), "", nil, i.panicStack)
			case runtime.Error:
				outcome = "panic"
				st := i.panicStack
				if e.opts.Trace {
					fmt.Fprintf(os.Stderr, "runtime error in interpreter: %v\n%s\n%s\n", p, st, i.panicGoStack)
				}
				x.violation("panic", "panic: "+p.Error(), "", nil, st)
			case string:
				outcome = "panic"
				x.violation("panic", "panic: "+p, "", nil, i.panicStack)
			default:
				outcome = "panic"
				x.violation("panic", fmt.Sprintf("panic: %v", p), "", nil, i.panicStack)
			}
		}()
		call(i, nil, token.NoPos, e.fn, nil)
		// run goroutines that were never joined
		x.drainGoroutines(i)
	}()
	solver.EndPath()
	e.mu.Lock()
	switch outcome {
	case "ok":
		e.res.Stats.PathsOK++
	case "assume":
		e.res.Stats.PathsAssume++
	case "panic":
		e.res.Stats.PathsPanic++
	}
	if x.touchedSym && x.assertsSeen > 0 {
		e.res.Stats.NontrivPaths++
	}
	if outcome == "ok" && e.res.SamplePC == "" && len(x.pc) > 0 {
		e.res.SamplePC = x.pcString(6)
	}
	e.mu.Unlock()
	return x
}

func (x *pathCtx) pcString(max int) string {
	var parts []string
	for i, t := range x.pc {
		if i >= max {
			parts = append(parts, fmt.Sprintf("… (%d more)", len(x.pc)-max))
			break
		}
		parts = append(parts, termString(t, 4))
	}
	return strings.Join(parts, " ∧ ")
}

func termString(t *Term, depth int) string {
	if t.isConst || t.op == "var" {
		return t.ref()
	}
	if depth == 0 {
		return "…"
	}
	s := "(" + strings.TrimPrefix(t.op, "uf:")
	for _, a := range t.args {
		s += " " + termString(a, depth-1)
	}
	return s + ")"
}

func (x *pathCtx) panicString(i *interpreter, v value) string {
	if it, ok := v.(iface); ok {
		if s, ok := it.v.(string); ok {
			return s
		}
		if it.t != nil {
			// error value: try Error()
			if s := i.tryErrorString(it); s != "" {
				return s
			}
			return "(" + it.t.String() + ")"
		}
	}
	return toString(v)
}

// assertPC adds t to the path condition.
func (x *pathCtx) assertPC(t *Term) {
	if c, ok := t.constBool(); ok && c {
		return
	}
	x.pc = append(x.pc, t)
	x.solver.Assert(t)
	x.touchedSym = true
}

// decide picks one of the alternatives (mutually exclusive, exhaustive under
// the path condition).  nil alternatives are unconstrained engine choices.
func (x *pathCtx) decide(alts []*Term, tag string) int {
	if x.concolic != nil {
		memo := map[*Term]uint64{}
		for i, a := range alts {
			if a == nil || evalTerm(a, x.concolic, memo) == 1 {
				x.decisions = append(x.decisions, i)
				return i
			}
		}
		panic("concolic: no alternative holds at " + tag)
	}
	d := len(x.decisions)
	if d >= x.ex.opts.MaxDepth {
		panic(budgetErr{msg: fmt.Sprintf("decision depth %d (%s)", d, tag), hang: true})
	}
	if d < len(x.prefix) {
		i := x.prefix[d]
		if i >= len(alts) {
			panic(unsupported(fmt.Sprintf("engine nondeterminism: prefix decision %d out of %d at %s", i, len(alts), tag)))
		}
		x.decisions = append(x.decisions, i)
		if alts[i] != nil {
			x.assertPC(alts[i])
		}
		return i
	}
	var feas []int
	for i, a := range alts {
		if a == nil {
			feas = append(feas, i)
			continue
		}
		if c, ok := a.constBool(); ok {
			if c {
				feas = append(feas, i)
			}
			continue
		}
		// last alternative of an exhaustive set with nothing feasible yet
		if i == len(alts)-1 && len(feas) == 0 {
			feas = append(feas, i)
			continue
		}
		r, _, note := x.solver.Check([]*Term{a}, x.ex.opts.FeasTimeoutMs, false)
		if note != "" {
			x.ex.noteInconclusive("solver: " + note)
		}
		if r != Unsat {
			feas = append(feas, i)
		}
	}
	if len(feas) == 0 {
		panic(abortPath{"no feasible alternative at " + tag})
	}
	if len(feas) > 1 && x.ex.opts.Trace {
		where := tag
		if x.interp != nil && x.interp.top != nil && x.interp.top.cur != nil {
			where += " @ " + x.interp.top.fn.String() + " " + x.interp.prog.Fset.Position(x.interp.top.cur.Pos()).String()
		}
		x.ex.mu.Lock()
		if x.ex.forks == nil {
			x.ex.forks = map[string]int{}
		}
		x.ex.forks[where] += len(feas) - 1
		x.ex.mu.Unlock()
	}
	base := append([]int{}, x.decisions...)
	for _, j := range feas[1:] {
		np := append(append([]int{}, base...), j)
		x.newPrefixes = append(x.newPrefixes, np)
	}
	i := feas[0]
	x.decisions = append(x.decisions, i)
	if alts[i] != nil {
		x.assertPC(alts[i])
	}
	return i
}

func (x *pathCtx) decideBool(c *Term, tag string) bool {
	if b, ok := c.constBool(); ok {
		return b
	}
	return x.decide([]*Term{c, x.tt.Not(c)}, tag) == 0
}

// truth forces a bool-valued value to a concrete bool (forking if symbolic).
func (x *pathCtx) truth(v value, tag string) bool {
	switch v := v.(type) {
	case bool:
		return v
	case sym:
		return x.decideBool(v.t, tag)
	}
	panic(fmt.Sprintf("truth of %T", v))
}

func (x *pathCtx) choose(n int, tag string) int {
	if n <= 1 {
		return 0
	}
	return x.decide(make([]*Term, n), tag)
}

// violation records a property violation on the current path.  extra (may be
// nil) is conjoined to the path condition to obtain the model.
func (x *pathCtx) violation(kind, msg, knownID string, extra *Term, stack string) {
	v := &Violation{Harness: x.ex.fn.Name(), Kind: kind, Msg: msg, KnownID: knownID, Stack: stack}
	key := v.Key()
	x.ex.mu.Lock()
	have := len(x.ex.viol[key])
	if have > 0 {
		x.ex.viol[key][0].Paths++
	}
	x.ex.mu.Unlock()
	if have >= x.ex.opts.MaxModelsPerKey {
		return
	}
	var ex []*Term
	if extra != nil {
		ex = []*Term{extra}
	}
	// make sure every input variable is known to the solver so that the
	// model is total
	for _, in := range x.inputs {
		for _, t := range in.vars {
			x.solver.define(t)
		}
	}
	r, model, note := x.solver.Check(ex, x.ex.opts.AssertTimeout, true)
	if r == Unsat && extra == nil {
		// the path condition itself is unsatisfiable (an earlier feasibility
		// query had timed out and the branch was kept): not a violation
		panic(abortPath{"infeasible path"})
	}
	if r != Sat {
		x.ex.noteInconclusive(fmt.Sprintf("model for violation %q: %v %s", msg, r, note))
		return
	}
	v.Model = x.modelToInputs(model)
	v.Path = append([]int{}, x.decisions...)
	v.Gate = append([]int{}, x.schedOrder...)
	v.Paths = 1
	x.ex.mu.Lock()
	x.ex.viol[key] = append(x.ex.viol[key], v)
	if x.ex.res.SampleModel == nil {
		x.ex.res.SampleModel = v.Model
	}
	x.ex.mu.Unlock()
}

func (x *pathCtx) modelToInputs(model map[string]uint64) map[string]string {
	out := map[string]string{}
	for _, in := range x.inputs {
		switch in.Kind {
		case "bytes":
			b := make([]byte, len(in.vars))
			for i, t := range in.vars {
				b[i] = byte(model[t.name])
			}
			out[in.Name] = fmt.Sprintf("%x", b)
		case "int64", "int":
			out[in.Name] = fmt.Sprint(int64(model[in.vars[0].name]))
		case "int32":
			out[in.Name] = fmt.Sprint(int32(model[in.vars[0].name]))
		default:
			out[in.Name] = fmt.Sprint(model[in.vars[0].name])
		}
	}
	return out
}

// check instruction budget
func (x *pathCtx) tick() {
	x.instr++
	if x.instr > x.ex.opts.MaxInstr {
		panic(budgetErr{msg: fmt.Sprintf("instruction budget %d", x.ex.opts.MaxInstr), hang: true})
	}
}

func (x *pathCtx) freshName(base string) string {
	n := x.nameCtr[base]
	x.nameCtr[base] = n + 1
	return fmt.Sprintf("%s#%d", base, n)
}

func smtName(s string) string {
	return "in_" + sanitizeName(s)
}
