package symexec

// Concrete evaluation of BV/Bool terms under an assignment of the input
// variables; used to validate the symbolic models against the real library
// functions (concolic mode: decisions follow the assignment).

import (
	"fmt"
	"strings"
)

func evalTerm(t *Term, env map[string]uint64, memo map[*Term]uint64) uint64 {
	if t.isConst {
		return t.u
	}
	if v, ok := memo[t]; ok {
		return v
	}
	var r uint64
	a := func(i int) uint64 { return evalTerm(t.args[i], env, memo) }
	b2u := func(b bool) uint64 {
		if b {
			return 1
		}
		return 0
	}
	w := t.sort.w
	switch {
	case t.op == "var":
		r = env[t.name] & mask(max1(w))
		if t.sort.k == sBool {
			r = env[t.name] & 1
		}
	case t.op == "not":
		r = 1 - a(0)
	case t.op == "and":
		r = a(0) & a(1)
	case t.op == "or":
		r = a(0) | a(1)
	case t.op == "ite":
		if a(0) == 1 {
			r = a(1)
		} else {
			r = a(2)
		}
	case t.op == "=":
		r = b2u(a(0) == a(1))
	case t.op == "bvult":
		r = b2u(a(0) < a(1))
	case t.op == "bvule":
		r = b2u(a(0) <= a(1))
	case t.op == "bvslt":
		aw := t.args[0].sort.w
		r = b2u(signExt(a(0), aw) < signExt(a(1), aw))
	case t.op == "bvsle":
		aw := t.args[0].sort.w
		r = b2u(signExt(a(0), aw) <= signExt(a(1), aw))
	case t.op == "bvneg":
		r = (-a(0)) & mask(w)
	case t.op == "bvnot":
		r = (^a(0)) & mask(w)
	case t.op == "concat":
		r = a(0)<<uint(t.args[1].sort.w) | a(1)
	case strings.HasPrefix(t.op, "(_ extract"):
		var hi, lo int
		fmt.Sscanf(t.op, "(_ extract %d %d)", &hi, &lo)
		r = (a(0) >> uint(lo)) & mask(hi-lo+1)
	case strings.HasPrefix(t.op, "(_ zero_extend"):
		r = a(0)
	case strings.HasPrefix(t.op, "(_ sign_extend"):
		r = uint64(signExt(a(0), t.args[0].sort.w)) & mask(w)
	case strings.HasPrefix(t.op, "bv"):
		tt := newTermTable()
		c := tt.BVBin(t.op, tt.BV(w, a(0)), tt.BV(w, a(1)))
		if !c.isConst {
			panic("evalTerm: cannot fold " + t.op)
		}
		r = c.u
	default:
		panic("evalTerm: unsupported op " + t.op)
	}
	memo[t] = r
	return r
}

func max1(w int) int {
	if w == 0 {
		return 1
	}
	return w
}

// evalValue concretises a value (scalar or string) under env.
func evalValue(v value, env map[string]uint64) value {
	memo := map[*Term]uint64{}
	switch v := v.(type) {
	case sym:
		x := &pathCtx{tt: newTermTable()}
		u := evalTerm(v.t, env, memo)
		if v.t.sort.k == sBool {
			return u == 1
		}
		return x.lower(x.tt.BV(v.t.sort.w, u), v.k)
	case symStr:
		bs := make([]byte, len(v.b))
		for i, e := range v.b {
			switch e := e.(type) {
			case byte:
				bs[i] = e
			case sym:
				bs[i] = byte(evalTerm(e.t, env, memo))
			}
		}
		return string(bs)
	}
	return v
}
