package symexec

// regexp: compiled natively (the pattern is always concrete); matching a
// concrete subject runs the real library; matching a symbolic subject uses a
// precise byte-level definition for the patterns of the oracle table and an
// uninterpreted predicate per (pattern, length) otherwise.

import (
	"fmt"
	"go/types"
	"hash/fnv"
	"regexp"
)

type nativeRe struct {
	re  *regexp.Regexp
	src string
}

func reOf(v value) *nativeRe {
	p, ok := v.(*value)
	if !ok || p == nil {
		panic(nilDeref())
	}
	n, ok := (*p).(nativeRe)
	if !ok {
		panic(unsupported(fmt.Sprintf("regexp value is %T", *p)))
	}
	return &n
}

func init() {
	compile := func(must bool) externalFn {
		return func(fr *frame, args []value) value {
			src := concStr(args[0], "regexp.Compile")
			re, err := regexp.Compile(src)
			if err != nil {
				if must {
					panic(targetPanic{iface{types.Typ[types.String], "regexp: Compile(" + src + "): " + err.Error()}})
				}
				return tuple{(*value)(nil), fr.i.errValue(err)}
			}
			cell := value(nativeRe{re, src})
			if must {
				return &cell
			}
			return tuple{&cell, iface{}}
		}
	}
	externals["regexp.Compile"] = compile(false)
	externals["regexp.MustCompile"] = compile(true)
	externals["regexp.QuoteMeta"] = func(fr *frame, args []value) value {
		return regexp.QuoteMeta(concStr(args[0], "regexp.QuoteMeta"))
	}
	externals["(*regexp.Regexp).String"] = func(fr *frame, args []value) value { return reOf(args[0]).src }
	externals["(*regexp.Regexp).NumSubexp"] = func(fr *frame, args []value) value { return reOf(args[0]).re.NumSubexp() }
	externals["(*regexp.Regexp).SubexpNames"] = func(fr *frame, args []value) value {
		var out []value
		for _, n := range reOf(args[0]).re.SubexpNames() {
			out = append(out, n)
		}
		return out
	}
	match := func(fr *frame, args []value) value {
		return fr.i.x.reMatch(reOf(args[0]), bytesOf(args[1]))
	}
	externals["(*regexp.Regexp).MatchString"] = match
	externals["(*regexp.Regexp).Match"] = match
	externals["(*regexp.Regexp).FindStringSubmatch"] = func(fr *frame, args []value) value {
		s, ok := args[1].(string)
		if !ok {
			panic(unsupported("FindStringSubmatch on symbolic string"))
		}
		var out []value
		m := reOf(args[0]).re.FindStringSubmatch(s)
		if m == nil {
			return []value(nil)
		}
		for _, g := range m {
			out = append(out, g)
		}
		return out
	}
	externals["(*regexp.Regexp).FindSubmatch"] = func(fr *frame, args []value) value {
		s, ok := mkStr(bytesOf(args[1])).(string)
		if !ok {
			panic(unsupported("FindSubmatch on symbolic bytes"))
		}
		m := reOf(args[0]).re.FindSubmatch([]byte(s))
		if m == nil {
			return []value(nil)
		}
		var out []value
		for _, g := range m {
			if g == nil {
				out = append(out, []value(nil))
				continue
			}
			out = append(out, strBytes(string(g)))
		}
		return out
	}
	externals["(*regexp.Regexp).FindStringSubmatchIndex"] = func(fr *frame, args []value) value {
		s := concStr(args[1], "FindStringSubmatchIndex")
		m := reOf(args[0]).re.FindStringSubmatchIndex(s)
		if m == nil {
			return []value(nil)
		}
		var out []value
		for _, g := range m {
			out = append(out, g)
		}
		return out
	}
	// ExpandString with concrete arguments (dst must be empty)
	externals["(*regexp.Regexp).ExpandString"] = func(fr *frame, args []value) value {
		if d, ok := args[1].([]value); ok && len(d) != 0 {
			panic(unsupported("ExpandString onto a non-empty destination"))
		}
		tmpl := concStr(args[2], "ExpandString template")
		src := concStr(args[3], "ExpandString source")
		var m []int
		for _, g := range args[4].([]value) {
			m = append(m, int(asInt64(g)))
		}
		out := reOf(args[0]).re.ExpandString(nil, tmpl, src, m)
		return strBytes(string(out))
	}
	externals["(*regexp.Regexp).ReplaceAllString"] = func(fr *frame, args []value) value {
		return reOf(args[0]).re.ReplaceAllString(concStr(args[1], "ReplaceAllString"), concStr(args[2], "ReplaceAllString"))
	}
	externals["(*regexp.Regexp).ReplaceAll"] = func(fr *frame, args []value) value {
		s, ok := mkStr(bytesOf(args[1])).(string)
		r, ok2 := mkStr(bytesOf(args[2])).(string)
		if !ok || !ok2 {
			panic(unsupported("ReplaceAll on symbolic bytes"))
		}
		return strBytes(string(reOf(args[0]).re.ReplaceAll([]byte(s), []byte(r))))
	}
}

// PreciseRegexModels lists the patterns with a byte-level definition.
var PreciseRegexModels = []string{"a.*", "^(?:a.*)$", ".*b", "^(?:.*b)$", "a|b", "^(?:a|b)$"}

func (x *pathCtx) reMatch(n *nativeRe, b []value) value {
	if s, ok := mkStr(b).(string); ok {
		return n.re.MatchString(s)
	}
	return x.reMatchSym(n, b)
}

func (x *pathCtx) reMatchSym(n *nativeRe, b []value) value {
	tt := x.tt
	eq := func(i int, c byte) *Term { return tt.Eq(x.lift(b[i]), tt.BV(8, uint64(c))) }
	exists := func(cs ...byte) *Term {
		acc := tt.Bool(false)
		for i := range b {
			for _, c := range cs {
				acc = tt.Or(acc, eq(i, c))
			}
		}
		return acc
	}
	noNL := func(from, to int) *Term {
		acc := tt.Bool(true)
		for i := from; i < to; i++ {
			acc = tt.And(acc, tt.Not(eq(i, '\n')))
		}
		return acc
	}
	var t *Term
	switch n.src {
	case "a.*":
		t = exists('a')
	case "^(?:a.*)$":
		if len(b) == 0 {
			return false
		}
		t = tt.And(eq(0, 'a'), noNL(1, len(b)))
	case ".*b":
		t = exists('b')
	case "^(?:.*b)$":
		if len(b) == 0 {
			return false
		}
		t = tt.And(eq(len(b)-1, 'b'), noNL(0, len(b)-1))
	case "a|b":
		t = exists('a', 'b')
	case "^(?:a|b)$":
		if len(b) != 1 {
			return false
		}
		t = tt.Or(eq(0, 'a'), eq(0, 'b'))
	default:
		h := fnv.New32a()
		h.Write([]byte(n.src))
		var ts []*Term
		for _, e := range b {
			ts = append(ts, x.lift(e))
		}
		t = tt.UF(fmt.Sprintf("re_%08x_len%d", h.Sum32(), len(b)), boolSort, ts...)
	}
	return x.lower(t, types.Bool)
}
