package symexec

import (
	"go/types"
	"regexp"
	"strconv"
	"strings"
	"testing"
)

func symBytes(x *pathCtx, n int) ([]value, []string) {
	b := make([]value, n)
	names := make([]string, n)
	for i := range b {
		names[i] = "b" + strconv.Itoa(i)
		b[i] = sym{x.tt.Var(names[i], bvSort(8)), types.Uint8}
	}
	return b, names
}

// The symbolic Quote model agrees with strconv.Quote: every single byte after
// three prefixes, and every pair over a boundary alphabet.
func TestQuoteModel(t *testing.T) {
	for c := 0; c < 256; c++ {
		for _, pre := range []string{"", "a", "\xc3"} {
			x := &pathCtx{tt: newTermTable(), concolic: map[string]uint64{"b0": uint64(c)}}
			b, _ := symBytes(x, 1)
			in := append(strBytes(pre), b...)
			got := evalValue(x.quoteSym(in), x.concolic)
			want := strconv.Quote(pre + string([]byte{byte(c)}))
			if got != want {
				t.Fatalf("%q+%02x: model %q, real %q", pre, c, got, want)
			}
		}
	}
	alpha := []byte{0, 7, 9, 10, 13, 0x1f, ' ', '"', '\\', 'a', 0x7e, 0x7f, 0x80, 0xa9, 0xbf, 0xc2, 0xc3, 0xe2, 0xf0, 0xff}
	for _, c0 := range alpha {
		for _, c1 := range alpha {
			x := &pathCtx{tt: newTermTable(), concolic: map[string]uint64{"b0": uint64(c0), "b1": uint64(c1)}}
			b, _ := symBytes(x, 2)
			want := strconv.Quote(string([]byte{c0, c1}))
			func() {
				defer func() {
					if p := recover(); p != nil {
						if _, ok := p.(unsupportedErr); ok {
							return // valid multi-byte rune: declared unsupported
						}
						panic(p)
					}
				}()
				got := evalValue(x.quoteSym(b), x.concolic)
				if got != want {
					t.Fatalf("%02x %02x: model %q, real %q", c0, c1, got, want)
				}
			}()
		}
	}
}

// The precise regex definitions agree with the real regexp package on every
// string of length <= 3 over {a, b, c, \n}.
func TestRegexTable(t *testing.T) {
	alpha := []byte{'a', 'b', 'c', '\n'}
	for _, src := range PreciseRegexModels {
		re := regexp.MustCompile(src)
		for n := 0; n <= 3; n++ {
			idx := make([]int, n)
			for {
				s := make([]byte, n)
				env := map[string]uint64{}
				for i := range s {
					s[i] = alpha[idx[i]]
					env["b"+strconv.Itoa(i)] = uint64(s[i])
				}
				x := &pathCtx{tt: newTermTable(), concolic: env}
				b, _ := symBytes(x, n)
				var got value
				if n == 0 {
					got = x.reMatch(&nativeRe{re, src}, nil)
				} else {
					got = evalValue(x.reMatchSym(&nativeRe{re, src}, b), env)
				}
				if got != re.MatchString(string(s)) {
					t.Fatalf("%s on %q: model %v real %v", src, s, got, re.MatchString(string(s)))
				}
				k := n - 1
				for k >= 0 {
					idx[k]++
					if idx[k] < len(alpha) {
						break
					}
					idx[k] = 0
					k--
				}
				if k < 0 {
					break
				}
			}
		}
	}
}

// strings.Trim* models against the library.
func TestTrimModel(t *testing.T) {
	alpha := []byte{'\r', '\n', 'x', ' ', 0x80}
	for _, c0 := range alpha {
		for _, c1 := range alpha {
			for _, c2 := range alpha {
				env := map[string]uint64{"b0": uint64(c0), "b1": uint64(c1), "b2": uint64(c2)}
				x := &pathCtx{tt: newTermTable(), concolic: env}
				b, _ := symBytes(x, 3)
				fr := &frame{i: &interpreter{x: x}}
				got := evalValue(extTrim(false, true)(fr, []value{mkStr(b), "\r\n"}), env)
				want := strings.TrimRight(string([]byte{c0, c1, c2}), "\r\n")
				if got != want {
					t.Fatalf("TrimRight %q: %q vs %q", []byte{c0, c1, c2}, got, want)
				}
			}
		}
	}
}
