package symexec

// Persistent SMT solver process (z3 -in / cvc5 --incremental), SMT-LIB2 text.

import (
	"bufio"
	"fmt"
	"io"
	"os"
	"os/exec"
	"strconv"
	"strings"
	"time"
)

type SatResult int

const (
	Unsat SatResult = iota
	Sat
	Unknown
)

func (r SatResult) String() string {
	return [...]string{"unsat", "sat", "unknown"}[r]
}

type Solver struct {
	kind    string // z3 | z3-new | cvc5
	cmd     *exec.Cmd
	in      io.WriteCloser
	out     *bufio.Reader
	tt      *TermTable
	emitUF  map[string]bool
	Queries int
	Sats    int
	Unsats  int
	Unks    int
	Seconds float64
	timeout int // ms for current queries
	logf    io.Writer
	depth   int
}

func SolverKind() string {
	if k := os.Getenv("VERIF_SOLVER"); k != "" {
		return k
	}
	return "z3"
}

func NewSolver(kind string) (*Solver, error) {
	var cmd *exec.Cmd
	switch kind {
	case "z3":
		cmd = exec.Command("/usr/bin/z3", "-in", "-smt2")
	case "z3-new":
		cmd = exec.Command("z3-new", "-in", "-smt2")
	case "cvc5":
		cmd = exec.Command("cvc5", "--incremental", "--lang=smt2", "--produce-models", "--fp-exp")
	case "cvc5-int":
		cmd = exec.Command("cvc5", "--incremental", "--lang=smt2", "--produce-models", "--solve-bv-as-int=sum")
		kind = "cvc5"
	default:
		return nil, fmt.Errorf("unknown solver %q", kind)
	}
	in, err := cmd.StdinPipe()
	if err != nil {
		return nil, err
	}
	out, err := cmd.StdoutPipe()
	if err != nil {
		return nil, err
	}
	cmd.Stderr = cmd.Stdout
	if err := cmd.Start(); err != nil {
		return nil, err
	}
	s := &Solver{kind: kind, cmd: cmd, in: in, out: bufio.NewReaderSize(out, 1<<16)}
	if p := os.Getenv("VERIF_SMTLOG"); p != "" {
		f, _ := os.OpenFile(p, os.O_CREATE|os.O_WRONLY|os.O_APPEND, 0o644)
		s.logf = f
	}
	if kind == "cvc5" {
		s.send("(set-logic ALL)\n")
	} else {
		s.send("(set-option :produce-models true)\n")
	}
	s.setTimeout(10000)
	return s, nil
}

func (s *Solver) Close() {
	if s.cmd != nil {
		s.in.Close()
		s.cmd.Process.Kill()
		s.cmd.Wait()
		s.cmd = nil
	}
}

func (s *Solver) send(str string) {
	if s.logf != nil {
		io.WriteString(s.logf, str)
	}
	io.WriteString(s.in, str)
}

func (s *Solver) setTimeout(ms int) {
	if ms == s.timeout {
		return
	}
	s.timeout = ms
	if s.kind == "cvc5" {
		s.send("(set-option :tlimit-per " + strconv.Itoa(ms) + ")\n")
	} else {
		s.send("(set-option :timeout " + strconv.Itoa(ms) + ")\n")
	}
}

// BeginPath opens a scope bound to a fresh term table.
func (s *Solver) BeginPath(tt *TermTable) {
	s.tt = tt
	s.emitUF = map[string]bool{}
	s.send("(push 1)\n")
	s.depth = 1
}

func (s *Solver) EndPath() {
	if s.depth > 0 {
		s.send("(pop 1)\n")
		s.depth = 0
	}
	s.tt = nil
}

func (s *Solver) define(t *Term) {
	var sb strings.Builder
	s.tt.emitDefs(t, &sb, s.emitUF)
	if sb.Len() > 0 {
		s.send(sb.String())
	}
}

// Assert adds t permanently to the current path scope.
func (s *Solver) Assert(t *Term) {
	s.define(t)
	s.send("(assert " + t.ref() + ")\n")
}

// readUntilDone reads lines up to the DONE marker.
func (s *Solver) readUntilDone() ([]string, error) {
	var lines []string
	for {
		l, err := s.out.ReadString('\n')
		if err != nil {
			return lines, err
		}
		l = strings.TrimSpace(l)
		if l == "DONE" || l == "\"DONE\"" {
			return lines, nil
		}
		if l != "" {
			lines = append(lines, l)
		}
	}
}

// Check asks whether (path scope) ∧ extra... is satisfiable.  When wantModel
// is set and the answer is sat the values of all declared variables are
// returned (bit patterns).
func (s *Solver) Check(extra []*Term, timeoutMs int, wantModel bool) (SatResult, map[string]uint64, string) {
	s.setTimeout(timeoutMs)
	for _, e := range extra {
		s.define(e)
	}
	var sb strings.Builder
	if len(extra) > 0 {
		sb.WriteString("(push 1)\n")
		for _, e := range extra {
			sb.WriteString("(assert " + e.ref() + ")\n")
		}
	}
	sb.WriteString("(check-sat)\n(echo \"DONE\")\n")
	t0 := time.Now()
	s.send(sb.String())
	lines, err := s.readUntilDone()
	s.Seconds += time.Since(t0).Seconds()
	s.Queries++
	res := Unknown
	note := ""
	if err != nil {
		note = "solver io: " + err.Error()
	}
	for _, l := range lines {
		switch {
		case l == "sat":
			res = Sat
		case l == "unsat":
			res = Unsat
		case l == "unknown" || l == "timeout":
			res = Unknown
		case strings.HasPrefix(l, "(error"):
			res = Unknown
			note = l
		}
		if note != "" {
			break
		}
	}
	var model map[string]uint64
	if res == Sat && wantModel && note == "" {
		model = s.getModel()
	}
	if len(extra) > 0 {
		s.send("(pop 1)\n")
	}
	switch res {
	case Sat:
		s.Sats++
	case Unsat:
		s.Unsats++
	default:
		s.Unks++
	}
	return res, model, note
}

func (s *Solver) getModel() map[string]uint64 {
	m := map[string]uint64{}
	vars := s.tt.vars
	var names []string
	for _, v := range vars {
		if v.defined {
			names = append(names, v.name)
		}
	}
	if len(names) == 0 {
		return m
	}
	// chunked to keep lines short
	for i := 0; i < len(names); i += 64 {
		j := i + 64
		if j > len(names) {
			j = len(names)
		}
		s.send("(get-value (" + strings.Join(names[i:j], " ") + "))\n(echo \"DONE\")\n")
		lines, _ := s.readUntilDone()
		txt := strings.Join(lines, " ")
		parseGetValue(txt, m)
	}
	return m
}

// parseGetValue parses "((name value) (name value) ...)".
func parseGetValue(txt string, m map[string]uint64) {
	toks := tokenizeSexp(txt)
	// expect ( ( name val ) ... )
	i := 0
	var parseVal func() (uint64, bool)
	parseVal = func() (uint64, bool) {
		if i >= len(toks) {
			return 0, false
		}
		t := toks[i]
		i++
		switch {
		case t == "true":
			return 1, true
		case t == "false":
			return 0, true
		case strings.HasPrefix(t, "#x"):
			u, err := strconv.ParseUint(t[2:], 16, 64)
			return u, err == nil
		case strings.HasPrefix(t, "#b"):
			u, err := strconv.ParseUint(t[2:], 2, 64)
			return u, err == nil
		case t == "(":
			// (_ bvN w)
			if i+3 < len(toks) && toks[i] == "_" && strings.HasPrefix(toks[i+1], "bv") {
				u, err := strconv.ParseUint(toks[i+1][2:], 10, 64)
				i += 4
				return u, err == nil
			}
			// skip unknown list
			depth := 1
			for i < len(toks) && depth > 0 {
				if toks[i] == "(" {
					depth++
				} else if toks[i] == ")" {
					depth--
				}
				i++
			}
			return 0, false
		}
		return 0, false
	}
	if i < len(toks) && toks[i] == "(" {
		i++
	}
	for i < len(toks) {
		if toks[i] != "(" {
			i++
			continue
		}
		i++
		if i >= len(toks) {
			break
		}
		name := toks[i]
		i++
		v, ok := parseVal()
		if ok {
			m[name] = v
		}
		for i < len(toks) && toks[i] != ")" {
			i++
		}
		i++
	}
}

func tokenizeSexp(s string) []string {
	var toks []string
	cur := strings.Builder{}
	flush := func() {
		if cur.Len() > 0 {
			toks = append(toks, cur.String())
			cur.Reset()
		}
	}
	for i := 0; i < len(s); i++ {
		c := s[i]
		switch c {
		case '(', ')':
			flush()
			toks = append(toks, string(c))
		case ' ', '\t', '\n', '\r':
			flush()
		case '|':
			j := strings.IndexByte(s[i+1:], '|')
			if j < 0 {
				cur.WriteString(s[i:])
				i = len(s)
			} else {
				cur.WriteString(s[i : i+j+2])
				i += j + 1
			}
		default:
			cur.WriteByte(c)
		}
	}
	flush()
	return toks
}
