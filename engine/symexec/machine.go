package symexec

// Interpreter glue: lazy package initialisation, memory operations with
// symbolic indices, maps with symbolic keys, string iteration, channels.

import (
	"fmt"
	"go/token"
	"go/types"
	"strings"
	"unicode/utf8"

	"golang.org/x/tools/go/ssa"
)

func mustDeref(t types.Type) types.Type {
	if p, ok := t.Underlying().(*types.Pointer); ok {
		return p.Elem()
	}
	panic(fmt.Sprintf("mustDeref: %v is not a pointer", t))
}

func isTimeType(t types.Type) bool {
	n, ok := t.(*types.Named)
	if !ok {
		return false
	}
	o := n.Obj()
	return o.Name() == "Time" && o.Pkg() != nil && o.Pkg().Path() == "time"
}

// worker-persistent interpreter state
type interpShared struct {
	libGlobals map[*ssa.Global]*value
	libInit    map[*ssa.Package]bool
}

func newInterp(prog *ssa.Program, sizes types.Sizes, module string, x *pathCtx) *interpreter {
	i := &interpreter{
		prog:     prog,
		globals:  make(map[*ssa.Global]*value),
		sizes:    sizes,
		x:        x,
		module:   module,
		initDone: map[*ssa.Package]bool{},
	}
	if rt := prog.ImportedPackage("runtime"); rt != nil {
		if ty := rt.Type("errorString"); ty != nil {
			i.runtimeErrorString = ty.Object().Type()
		}
	}
	if i.runtimeErrorString == nil {
		i.runtimeErrorString = types.Typ[types.String]
	}
	return i
}

func (i *interpreter) inModule(pkg *ssa.Package) bool {
	return pkg != nil && strings.HasPrefix(pkg.Pkg.Path(), i.module)
}

func (i *interpreter) global(g *ssa.Global) *value {
	if r, ok := i.globals[g]; ok {
		return r
	}
	i.lazyInit(g.Pkg)
	if r, ok := i.globals[g]; ok {
		return r
	}
	panic(fmt.Sprintf("no storage for global %s", g))
}

func (i *interpreter) lazyInit(pkg *ssa.Package) {
	if i.initDone[pkg] {
		return
	}
	i.initDone[pkg] = true
	pkg.Build()
	for _, m := range pkg.Members {
		if g, ok := m.(*ssa.Global); ok {
			cell := zero(mustDeref(g.Type()))
			i.globals[g] = &cell
		}
	}
	if skipInitPkgs[pkg.Pkg.Path()] {
		return
	}
	if init := pkg.Func("init"); init != nil {
		saved := i.top
		i.top = nil
		func() {
			defer func() {
				if p := recover(); p != nil {
					if !i.inModule(pkg) {
						switch p.(type) {
						case abortPath, budgetErr, assertStop:
							panic(p)
						}
						// library initialiser reached something we do not
						// model: leave the remaining globals zero
						i.unwinding = false
						i.x.initIncomplete = append(i.x.initIncomplete, pkg.Pkg.Path())
						return
					}
					panic(p)
				}
			}()
			call(i, nil, token.NoPos, init, nil)
		}()
		i.top = saved
	}
}

var skipInitPkgs = map[string]bool{
	"runtime": true, "os": true, "syscall": true, "internal/poll": true, "net": true,
	"internal/godebug": true, "internal/cpu": true, "reflect": true, "sync": true,
	"internal/reflectlite": true, "time": true, "fmt": true, "log": true,
}

// library packages whose user-written init functions are not executed
// (registration, environment probing); their package-level variable
// initialisers still run.
var skipUserInitPrefixes = []string{
	"go.opentelemetry.io/otel", "google.golang.org/", "github.com/docker/", "net", "crypto", "os", "runtime",
	"github.com/prometheus/", "github.com/spf13/", "golang.org/x/net", "golang.org/x/sys", "github.com/Masterminds/",
	"github.com/gogo/", "github.com/golang/", "internal/", "syscall", "log", "expvar", "mime", "compress", "encoding/gob",
	"go.uber.org/zap", "github.com/go-logr", "github.com/sirupsen",
}

// skipCall reports calls that the lazy-initialisation scheme elides.
func (i *interpreter) skipCall(caller *frame, fn *ssa.Function) bool {
	if caller == nil || caller.fn.Synthetic != "package initializer" {
		return false
	}
	if fn.Synthetic == "package initializer" {
		return true // dependencies are initialised on first touch
	}
	if strings.HasPrefix(fn.Name(), "init#") && !i.inModule(fn.Pkg) {
		path := fn.Pkg.Pkg.Path()
		for _, pre := range skipUserInitPrefixes {
			if strings.HasPrefix(path, pre) {
				return true
			}
		}
	}
	return false
}

func (i *interpreter) stackString() string {
	var sb strings.Builder
	n := 0
	for fr := i.top; fr != nil && n < 40; fr = fr.caller {
		pos := ""
		if fr.cur != nil {
			pos = i.prog.Fset.Position(fr.cur.Pos()).String()
		}
		fmt.Fprintf(&sb, "  %s %s\n", fr.fn.String(), pos)
		n++
	}
	return sb.String()
}

func (i *interpreter) tryErrorString(it iface) (s string) {
	defer func() {
		if p := recover(); p != nil {
			if engineAbort(p) {
				s = ""
				return
			}
			s = ""
		}
	}()
	ms := i.prog.MethodSets.MethodSet(it.t)
	sel := ms.Lookup(nil, "Error")
	if sel == nil {
		return ""
	}
	fn := i.prog.MethodValue(sel)
	if fn == nil {
		return ""
	}
	r := call(i, nil, token.NoPos, fn, []value{it.v})
	if str, ok := r.(string); ok {
		return str
	}
	return ""
}

// ---- memory ----

func nilDeref() rtError {
	return runtimeError("invalid memory address or nil pointer dereference")
}

func fieldAddr(fr *frame, instr *ssa.FieldAddr) value {
	p := fr.get(instr.X).(*value)
	if p == nil {
		panic(nilDeref())
	}
	st, ok := (*p).(structure)
	if !ok {
		panic(unsupported(fmt.Sprintf("field access on modelled value %T in %s", *p, fr.fn)))
	}
	return &st[instr.Field]
}

func field(fr *frame, instr *ssa.Field) value {
	return fr.get(instr.X).(structure)[instr.Field]
}

func (x *pathCtx) needIndex(idx value, n int) int {
	if n == 0 {
		panic(runtimeError("index out of range [?] with length 0"))
	}
	v, ok := x.concretizeInt(idx, 0, int64(n-1), "index")
	if !ok {
		panic(runtimeError(fmt.Sprintf("index out of range with length %d", n)))
	}
	return int(v)
}

func (x *pathCtx) needInt(v value, lo, hi int64, what string) int64 {
	n, ok := x.concretizeInt(v, lo, hi, what)
	if !ok {
		panic(runtimeError(what + " out of range"))
	}
	return n
}

func indexAddr(fr *frame, instr *ssa.IndexAddr) value {
	x := fr.get(instr.X)
	idx := fr.get(instr.Index)
	switch x := x.(type) {
	case []value:
		if si, ok := idx.(sym); ok && isScalarTable(x) {
			return symElemPtr{base: x, idx: si}
		}
		return &x[fr.i.x.needIndex(idx, len(x))]
	case *value: // *array
		if x == nil {
			panic(nilDeref())
		}
		a := (*x).(array)
		if si, ok := idx.(sym); ok && isScalarTable(a) {
			return symElemPtr{base: a, idx: si}
		}
		return &a[fr.i.x.needIndex(idx, len(a))]
	}
	panic(fmt.Sprintf("unexpected x type in IndexAddr: %T", x))
}

func index(fr *frame, instr *ssa.Index) value {
	x := fr.get(instr.X)
	idx := fr.get(instr.Index)
	switch x := x.(type) {
	case array:
		if si, ok := idx.(sym); ok && isScalarTable(x) {
			return fr.i.x.tableLookup(x, si)
		}
		return x[fr.i.x.needIndex(idx, len(x))]
	case string:
		if si, ok := idx.(sym); ok && len(x) >= 8 {
			return fr.i.x.tableLookup(strBytes(x), si)
		}
		return x[fr.i.x.needIndex(idx, len(x))]
	case symStr:
		return x.b[fr.i.x.needIndex(idx, len(x.b))]
	}
	panic(fmt.Sprintf("unexpected x type in Index: %T", x))
}

// symConvHook handles conversions involving symbolic data.
func symConvHook(i *interpreter, utDst, utSrc types.Type, x value) (value, bool) {
	switch xv := x.(type) {
	case numStr:
		if b, ok := utDst.(*types.Basic); ok && b.Kind() == types.String {
			return xv, true
		}
		panic(unsupported("conversion of a decimal spelling"))
	case sym:
		if b, ok := utDst.(*types.Basic); ok {
			if b.Info()&types.IsNumeric != 0 {
				return i.x.symConv(b.Kind(), xv), true
			}
			if b.Kind() == types.String {
				return i.x.runeToString(xv), true
			}
		}
		panic(unsupported(fmt.Sprintf("conversion of symbolic %v to %v", utSrc, utDst)))
	case symStr:
		switch d := utDst.(type) {
		case *types.Basic:
			if d.Kind() == types.String {
				return xv, true
			}
		case *types.Slice:
			if d.Elem().Underlying().(*types.Basic).Kind() == types.Byte {
				return append([]value{}, xv.b...), true
			}
			panic(unsupported("[]rune(symbolic string)"))
		}
	case []value:
		if s, ok := utSrc.(*types.Slice); ok {
			if b, ok := s.Elem().Underlying().(*types.Basic); ok && b.Kind() == types.Byte {
				if d, ok := utDst.(*types.Basic); ok && d.Kind() == types.String {
					return mkStr(append([]value{}, xv...)), true
				}
			}
			if b, ok := s.Elem().Underlying().(*types.Basic); ok && b.Kind() == types.Rune && anySym(xv) {
				// string([]rune) with symbolic runes: concatenation of the
				// UTF-8 encodings (each forks on its length)
				if d, ok := utDst.(*types.Basic); ok && d.Kind() == types.String {
					var out []value
					for _, r := range xv {
						if rs, ok := r.(sym); ok {
							out = append(out, strBytes(i.x.runeToString(rs))...)
						} else {
							out = append(out, strBytes(string(rune(asInt64(r))))...)
						}
					}
					return mkStr(out), true
				}
			}
		}
	}
	return nil, false
}

// ---- strings: range with symbolic UTF-8 decoding ----

type stringIter struct {
	i   *interpreter
	b   []value
	pos int
}

func (it *stringIter) next() tuple {
	if it.pos >= len(it.b) {
		return tuple{false, nil, nil}
	}
	r, w := it.i.x.decodeRune(it.b, it.pos)
	p := it.pos
	it.pos += w
	return tuple{true, p, r}
}

func (x *pathCtx) inRange(t *Term, lo, hi uint64) *Term {
	w := t.sort.w
	return x.tt.And(x.tt.BVCmp("bvule", x.tt.BV(w, lo), t), x.tt.BVCmp("bvule", t, x.tt.BV(w, hi)))
}

// decodeRune decodes the UTF-8 sequence at b[pos:], forking on the byte
// classes of symbolic bytes exactly as the Go spec defines range-over-string.
func (x *pathCtx) decodeRune(b []value, pos int) (value, int) {
	// fully concrete window?
	conc := true
	end := pos + 4
	if end > len(b) {
		end = len(b)
	}
	for _, e := range b[pos:end] {
		if _, ok := e.(byte); !ok {
			conc = false
			break
		}
	}
	if conc {
		buf := make([]byte, end-pos)
		for k := range buf {
			buf[k] = b[pos+k].(byte)
		}
		r, w := utf8.DecodeRune(buf)
		return rune(r), w
	}
	tt := x.tt
	t0 := x.lift(b[pos])
	errRune := func() (value, int) { return rune(utf8.RuneError), 1 }
	classes := []struct {
		lo, hi   uint64
		n        int // continuation bytes
		clo, chi uint64
	}{
		{0x00, 0x7F, 0, 0, 0},
		{0xC2, 0xDF, 1, 0x80, 0xBF},
		{0xE0, 0xE0, 2, 0xA0, 0xBF},
		{0xE1, 0xEC, 2, 0x80, 0xBF},
		{0xED, 0xED, 2, 0x80, 0x9F},
		{0xEE, 0xEF, 2, 0x80, 0xBF},
		{0xF0, 0xF0, 3, 0x90, 0xBF},
		{0xF1, 0xF3, 3, 0x80, 0xBF},
		{0xF4, 0xF4, 3, 0x80, 0x8F},
	}
	alts := make([]*Term, 0, len(classes)+1)
	any := tt.Bool(false)
	for _, c := range classes {
		a := x.inRange(t0, c.lo, c.hi)
		alts = append(alts, a)
		any = tt.Or(any, a)
	}
	alts = append(alts, tt.Not(any))
	ci := x.decide(alts, "utf8 lead")
	if ci == len(classes) {
		return errRune()
	}
	c := classes[ci]
	if c.n == 0 {
		return x.lower(tt.ZeroExt(t0, 32), types.Int32), 1
	}
	if pos+c.n > len(b)-1 {
		return errRune() // truncated sequence
	}
	var conts []*Term
	for k := 1; k <= c.n; k++ {
		tk := x.lift(b[pos+k])
		lo, hi := uint64(0x80), uint64(0xBF)
		if k == 1 {
			lo, hi = c.clo, c.chi
		}
		if !x.decideBool(x.inRange(tk, lo, hi), "utf8 cont") {
			return errRune()
		}
		conts = append(conts, tk)
	}
	var leadMask uint64
	switch c.n {
	case 1:
		leadMask = 0x1F
	case 2:
		leadMask = 0x0F
	case 3:
		leadMask = 0x07
	}
	r := tt.BVBin("bvand", tt.ZeroExt(t0, 32), tt.BV(32, leadMask))
	for _, tk := range conts {
		r = tt.BVBin("bvor", tt.BVBin("bvshl", r, tt.BV(32, 6)), tt.BVBin("bvand", tt.ZeroExt(tk, 32), tt.BV(32, 0x3F)))
	}
	return x.lower(r, types.Int32), c.n + 1
}

// ---- maps ----

type smapEntry struct {
	k, v value
	dead bool
	symK bool
}

type compKey struct{ s string }

type smap struct {
	kt, vt types.Type
	ents   []*smapEntry
	idx    map[interface{}]*smapEntry
	nsym   int
	n      int
}

func newSmap(t *types.Map) *smap {
	return &smap{kt: t.Key(), vt: t.Elem(), idx: map[interface{}]*smapEntry{}}
}

func (m *smap) len() int {
	if m == nil {
		return 0
	}
	return m.n
}

func (m *smap) clear() {
	if m == nil {
		return
	}
	for _, e := range m.ents {
		e.dead = true
	}
	m.ents = nil
	m.idx = map[interface{}]*smapEntry{}
	m.n, m.nsym = 0, 0
}

// concreteKey returns a Go-hashable stand-in for a fully concrete key.
func concreteKey(v value) interface{} {
	switch v := v.(type) {
	case bool, int, int8, int16, int32, int64, uint, uint8, uint16, uint32, uint64, uintptr, float32, float64, string, *value, *symChan, *smap:
		return v
	}
	var sb strings.Builder
	writeKey(&sb, v)
	return compKey{sb.String()}
}

func writeKey(sb *strings.Builder, v value) {
	switch v := v.(type) {
	case structure:
		sb.WriteString("{")
		for _, e := range v {
			writeKey(sb, e)
			sb.WriteString(",")
		}
		sb.WriteString("}")
	case array:
		sb.WriteString("[")
		for _, e := range v {
			writeKey(sb, e)
			sb.WriteString(",")
		}
		sb.WriteString("]")
	case iface:
		if v.t == nil {
			sb.WriteString("<nil>")
			return
		}
		sb.WriteString("(" + v.t.String() + ")")
		writeKey(sb, v.v)
	case timeVal:
		fmt.Fprintf(sb, "time(%v,%v)", v.ns, v.zero)
	case string:
		fmt.Fprintf(sb, "%q", v)
	case *value, *symChan, *smap:
		fmt.Fprintf(sb, "%p", v)
	default:
		fmt.Fprintf(sb, "%T:%v", v, v)
	}
}

// find returns the live entry whose key equals k (forking on symbolic
// equalities), or nil.
func (m *smap) find(i *interpreter, k value) *smapEntry {
	if m == nil {
		return nil
	}
	ksym := containsSym(k)
	if !ksym {
		if m.nsym > 0 {
			for _, e := range m.ents {
				if e.dead || !e.symK {
					continue
				}
				if i.x.truth(i.x.symEquals(m.kt, e.k, k), "map key") {
					return e
				}
			}
		}
		if e, ok := m.idx[concreteKey(k)]; ok {
			return e
		}
		return nil
	}
	for _, e := range m.ents {
		if e.dead {
			continue
		}
		if i.x.truth(i.x.symEquals(m.kt, e.k, k), "map key") {
			return e
		}
	}
	return nil
}

func (m *smap) lookup(i *interpreter, k value) (value, bool) {
	e := m.find(i, k)
	if e == nil {
		return nil, false
	}
	return e.v, true
}

func (m *smap) update(i *interpreter, k, v value) {
	if e := m.find(i, k); e != nil {
		e.v = v
		return
	}
	e := &smapEntry{k: k, v: v, symK: containsSym(k)}
	m.ents = append(m.ents, e)
	m.n++
	if e.symK {
		m.nsym++
	} else {
		m.idx[concreteKey(k)] = e
	}
}

func (m *smap) delete(i *interpreter, k value) {
	e := m.find(i, k)
	if e == nil {
		return
	}
	e.dead = true
	m.n--
	if e.symK {
		m.nsym--
	} else {
		delete(m.idx, concreteKey(k))
	}
	// compact occasionally
	if len(m.ents) > 32 && m.n*2 < len(m.ents) {
		live := m.ents[:0:0]
		for _, e := range m.ents {
			if !e.dead {
				live = append(live, e)
			}
		}
		m.ents = live
	}
}

type smapIter struct {
	i       *interpreter
	m       *smap
	pos     int
	visited map[*smapEntry]bool
	all     bool
	snap    []*smapEntry
}

func (m *smap) newIter(i *interpreter) iter {
	it := &smapIter{i: i, m: m, all: i.x.mapOrderAll}
	if m != nil && it.all {
		it.visited = map[*smapEntry]bool{}
		it.snap = append(it.snap, m.ents...)
	}
	return it
}

func (it *smapIter) next() tuple {
	if it.m == nil {
		return tuple{false, nil, nil}
	}
	if it.all {
		var cand []*smapEntry
		for _, e := range it.snap {
			if !e.dead && !it.visited[e] {
				cand = append(cand, e)
			}
		}
		if len(cand) == 0 {
			return tuple{false, nil, nil}
		}
		e := cand[it.i.x.choose(len(cand), "map order")]
		it.visited[e] = true
		return tuple{true, e.k, e.v}
	}
	for it.pos < len(it.m.ents) {
		e := it.m.ents[it.pos]
		it.pos++
		if !e.dead {
			return tuple{true, e.k, e.v}
		}
	}
	return tuple{false, nil, nil}
}

// ---- channels (single-threaded model) ----

type symChan struct {
	buf    []value
	cap    int
	closed bool
}

func chanSend(i *interpreter, c value, v value) {
	ch := c.(*symChan)
	if ch == nil {
		panic(unsupported("send on nil channel (deadlock)"))
	}
	if ch.closed {
		panic("send on closed channel")
	}
	ch.buf = append(ch.buf, v)
}

func chanRecv(i *interpreter, instr *ssa.UnOp, c value) value {
	ch := c.(*symChan)
	if ch == nil {
		panic(unsupported("receive from nil channel (deadlock)"))
	}
	// run pending goroutines ONE AT A TIME until something can be received:
	// the receiver continues as soon as the first sender is done, the other
	// goroutines stay pending (they complete later, see vsymDrain)
	for len(ch.buf) == 0 && !ch.closed && len(i.x.goq) > 0 && i.x.gor == 0 {
		i.x.runOneGoroutine(i)
	}
	if len(ch.buf) == 0 && !ch.closed {
		i.x.drainGoroutines(i)
	}
	var v value
	ok := false
	if len(ch.buf) > 0 {
		v, ch.buf = ch.buf[0], ch.buf[1:]
		ok = true
	} else if ch.closed {
		v = zero(instr.X.Type().Underlying().(*types.Chan).Elem())
	} else {
		panic(unsupported("receive would block forever"))
	}
	if instr.CommaOk {
		return tuple{v, ok}
	}
	return v
}

func doSelect(fr *frame, instr *ssa.Select) value {
	chosen := -1
	var recv value
	recvOk := false
	for k, st := range instr.States {
		ch, _ := fr.get(st.Chan).(*symChan)
		if ch == nil {
			continue
		}
		if st.Dir == types.RecvOnly {
			if len(ch.buf) > 0 {
				recv, ch.buf = ch.buf[0], ch.buf[1:]
				recvOk = true
				chosen = k
				break
			}
			if ch.closed {
				chosen = k
				break
			}
		} else {
			if ch.cap == 0 || len(ch.buf) < ch.cap {
				ch.buf = append(ch.buf, fr.get(st.Send))
				chosen = k
				break
			}
		}
	}
	if chosen < 0 && instr.Blocking {
		panic(unsupported("blocking select with no ready case"))
	}
	r := tuple{chosen, recvOk}
	for k, st := range instr.States {
		if st.Dir == types.RecvOnly {
			var v value
			if k == chosen && recvOk {
				v = recv
			} else {
				v = zero(st.Chan.Type().Underlying().(*types.Chan).Elem())
			}
			r = append(r, v)
		}
	}
	return r
}

// drainGoroutines runs pending goroutine bodies to completion, each
// atomically, in an engine-chosen order.
func (x *pathCtx) drainGoroutines(i *interpreter) {
	if x.gor != 0 {
		// nested wait inside a goroutine body: run the children in order
		for len(x.goq) > 0 {
			g := x.goq[0]
			x.goq = x.goq[1:]
			g.f()
		}
		return
	}
	ran := false
	for len(x.goq) > 0 {
		k := 0
		if x.schedAll {
			k = x.choose(len(x.goq), "goroutine order")
		}
		g := x.goq[k]
		x.goq = append(x.goq[:k:k], x.goq[k+1:]...)
		x.schedOrder = append(x.schedOrder, g.id-1)
		x.gor = g.id
		func() {
			defer func() { x.gor = 0 }()
			g.f()
		}()
		ran = true
	}
	if ran {
		x.checkRaces()
	}
}

// runOneGoroutine runs one pending goroutine body (engine-chosen under
// vsymSchedAll) to completion.
func (x *pathCtx) runOneGoroutine(i *interpreter) {
	k := 0
	if x.schedAll {
		k = x.choose(len(x.goq), "goroutine order")
	}
	g := x.goq[k]
	x.goq = append(x.goq[:k:k], x.goq[k+1:]...)
	x.schedOrder = append(x.schedOrder, g.id-1)
	x.gor = g.id
	defer func() { x.gor = 0 }()
	g.f()
}

type pendingGo struct {
	id int
	f  func()
}

// runeToString is string(r) for a symbolic integer: UTF-8 encoding with one
// decision on the encoded length.
func (x *pathCtx) runeToString(v sym) value {
	tt := x.tt
	w, signed := kindBits(v.k)
	var r *Term
	switch {
	case w == 32:
		r = v.t
	case w < 32 && signed:
		r = tt.SignExt(v.t, 32)
	case w < 32:
		r = tt.ZeroExt(v.t, 32)
	default:
		// wider than a rune: out of range values encode U+FFFD
		fits := tt.Eq(tt.SignExt(tt.Extract(31, 0, v.t), w), v.t)
		if !x.decideBool(fits, "string(int) range") {
			return "\uFFFD"
		}
		r = tt.Extract(31, 0, v.t)
	}
	c := func(u uint64) *Term { return tt.BV(32, u) }
	ule := func(a, b *Term) *Term { return tt.BVCmp("bvule", a, b) }
	neg := tt.BVCmp("bvslt", r, c(0))
	one := tt.And(tt.Not(neg), ule(r, c(0x7f)))
	two := tt.And(ule(c(0x80), r), ule(r, c(0x7ff)))
	sur := tt.And(ule(c(0xd800), r), ule(r, c(0xdfff)))
	three := tt.And(tt.And(ule(c(0x800), r), ule(r, c(0xffff))), tt.Not(sur))
	four := tt.And(ule(c(0x10000), r), ule(r, c(0x10ffff)))
	bad := tt.Not(tt.Or(tt.Or(one, two), tt.Or(three, four)))
	b8 := func(t *Term) value { return x.lower(tt.Extract(7, 0, t), types.Uint8) }
	shr := func(n uint64) *Term { return tt.BVBin("bvlshr", r, c(n)) }
	cont := func(t *Term) value {
		return b8(tt.BVBin("bvor", c(0x80), tt.BVBin("bvand", t, c(0x3f))))
	}
	switch x.decide([]*Term{one, two, three, four, bad}, "string(rune) length") {
	case 0:
		return mkStr([]value{b8(r)})
	case 1:
		return mkStr([]value{b8(tt.BVBin("bvor", c(0xc0), shr(6))), cont(r)})
	case 2:
		return mkStr([]value{b8(tt.BVBin("bvor", c(0xe0), shr(12))), cont(shr(6)), cont(r)})
	case 3:
		return mkStr([]value{b8(tt.BVBin("bvor", c(0xf0), shr(18))), cont(shr(12)), cont(shr(6)), cont(r)})
	}
	return "\uFFFD"
}

// ---- constant tables indexed by a symbolic value ----

// symElemPtr is the address of table[idx] for a symbolic idx; only loads are
// supported (a store falls back to case-splitting the index).
type symElemPtr struct {
	base []value
	idx  sym
}

// isScalarTable reports whether t is a table (>= 8 entries) of concrete
// scalars of one kind: a symbolic index into it becomes an if-then-else term
// over runs of equal entries instead of a case split.
func isScalarTable(t []value) bool {
	if len(t) < 8 {
		return false
	}
	k0, ok := kindOfValue(t[0])
	if !ok {
		return false
	}
	if _, s := t[0].(sym); s {
		return false
	}
	for _, e := range t[1:] {
		if _, s := e.(sym); s {
			return false
		}
		k, ok := kindOfValue(e)
		if !ok || k != k0 {
			return false
		}
	}
	return true
}

// tableLookup returns table[idx]; out-of-range indices panic as in Go.
func (x *pathCtx) tableLookup(t []value, idx sym) value {
	tt := x.tt
	w, signed := kindBits(idx.k)
	n := len(t)
	var inRange *Term
	if signed {
		inRange = tt.And(tt.BVCmp("bvsle", tt.BV(w, 0), idx.t), tt.BVCmp("bvslt", idx.t, tt.BV(w, uint64(n))))
	} else {
		inRange = tt.BVCmp("bvult", idx.t, tt.BV(w, uint64(n)))
	}
	if w < 64 && uint64(n) > mask(w) {
		inRange = tt.Bool(true) // every value of the index type is in range
		if signed {
			inRange = tt.BVCmp("bvsle", tt.BV(w, 0), idx.t)
		}
	}
	if !x.decideBool(inRange, "table index") {
		panic(runtimeError(fmt.Sprintf("index out of range with length %d", n)))
	}
	k, _ := kindOfValue(t[0])
	// runs of equal entries, folded from the end
	acc := x.lift(t[n-1])
	for i := n - 2; i >= 0; {
		j := i
		for j > 0 && t[j-1] == t[i] {
			j--
		}
		// entries j..i share a value
		v := x.lift(t[i])
		if v != acc {
			var c *Term
			if j == i {
				c = tt.Eq(idx.t, tt.BV(w, uint64(i)))
			} else {
				c = tt.BVCmp("bvule", idx.t, tt.BV(w, uint64(i)))
				if j > 0 {
					c = tt.And(c, tt.BVCmp("bvule", tt.BV(w, uint64(j)), idx.t))
				}
			}
			acc = tt.Ite(c, v, acc)
		}
		i = j - 1
	}
	return x.lower(acc, k)
}

func anySym(vs []value) bool {
	for _, v := range vs {
		if _, ok := v.(sym); ok {
			return true
		}
	}
	return false
}
