package symexec

// text/template: parsing is done natively (real syntax errors, with dummy
// functions registered under the names the program registered); execution is
// a contract stub: it either fails (engine choice) or writes bytes to the
// writer - the literal text for a template without actions, an opaque marker
// otherwise.  Template SEMANTICS are outside every claim; what is checked is
// the glue around Execute.

import (
	"fmt"
	"go/token"
	"go/types"
	"strings"
	"text/template"
)

type nativeTmpl struct {
	name  string
	src   string
	funcs map[string]bool
}

func tmplOf(v value) *nativeTmpl {
	p, ok := v.(*value)
	if !ok || p == nil {
		panic(nilDeref())
	}
	t, ok := (*p).(*nativeTmpl)
	if !ok {
		panic(unsupported(fmt.Sprintf("template value is %T", *p)))
	}
	return t
}

func init() {
	externals["text/template.New"] = func(fr *frame, args []value) value {
		cell := value(&nativeTmpl{name: concStr(args[0], "template.New"), funcs: map[string]bool{}})
		return &cell
	}
	externals["(*text/template.Template).Option"] = func(fr *frame, args []value) value { return args[0] }
	externals["(*text/template.Template).Funcs"] = func(fr *frame, args []value) value {
		t := tmplOf(args[0])
		if m, ok := args[1].(*smap); ok && m != nil {
			for _, e := range m.ents {
				if !e.dead {
					if k, ok := e.k.(string); ok {
						t.funcs[k] = true
					}
				}
			}
		}
		return args[0]
	}
	externals["(*text/template.Template).Parse"] = func(fr *frame, args []value) value {
		t := tmplOf(args[0])
		t.src = concStr(args[1], "template.Parse")
		fm := template.FuncMap{}
		for k := range t.funcs {
			fm[k] = func(...interface{}) string { return "" }
		}
		if _, err := template.New(t.name).Funcs(fm).Parse(t.src); err != nil {
			return tuple{(*value)(nil), fr.i.errValue(err)}
		}
		return tuple{args[0], iface{}}
	}
	externals["(*text/template.Template).Execute"] = func(fr *frame, args []value) value {
		t := tmplOf(args[0])
		x := fr.i.x
		out := t.src
		if strings.Contains(t.src, "{{") {
			if x.choose(2, "template.Execute outcome") == 1 {
				return fr.i.newError("template: " + t.name + ": execution failed (stub)")
			}
			out = "<expanded:" + t.name + ">"
		}
		r := fr.i.writerWrite(fr, args[1], out)
		if tup, ok := r.(tuple); ok && len(tup) == 2 {
			return tup[1]
		}
		return iface{}
	}
	externals["(*text/template.Template).Name"] = func(fr *frame, args []value) value { return tmplOf(args[0]).name }
}

var _ = token.NoPos
var _ = types.Typ
