package symexec

// text/template: parsing is done natively (real syntax errors, with dummy
// functions registered under the names the program registered).  Execution:
//   - a template made of literal text and SIMPLE actions only is evaluated
//     precisely: {{ .field }} over a map[string]string (missing key = ""),
//     {{ fn }} / {{ fn.Unix }} / {{ x | fn }} where fn is a function of the
//     program's FuncMap that is itself interpreted (a closure of the repo),
//     so the binding of __line__ / __timestamp__ is followed for real;
//   - any other template is a contract stub: Execute either fails (engine
//     choice) or writes an opaque marker.
// Template semantics beyond the simple fragment are outside every claim.

import (
	"fmt"
	"go/token"
	"go/types"
	"strconv"
	"strings"
	"text/template"
	"text/template/parse"

	"golang.org/x/tools/go/ssa"
)

type nativeTmpl struct {
	name   string
	src    string
	funcs  map[string]bool
	fnVals map[string]value // the program's FuncMap values (closures, functions)
	tree   *parse.Tree
}

// errTmplOpaque: the template is outside the precisely evaluated fragment.
type errTmplOpaque struct{ why string }

// tmplFailure: a FuncMap function returned a non-nil error.
type tmplFailure struct{ err value }

func tmplOf(v value) *nativeTmpl {
	p, ok := v.(*value)
	if !ok || p == nil {
		panic(nilDeref())
	}
	t, ok := (*p).(*nativeTmpl)
	if !ok {
		panic(unsupported(fmt.Sprintf("template value is %T", *p)))
	}
	return t
}

func init() {
	externals["text/template.New"] = func(fr *frame, args []value) value {
		cell := value(&nativeTmpl{name: concStr(args[0], "template.New"), funcs: map[string]bool{}, fnVals: map[string]value{}})
		return &cell
	}
	externals["(*text/template.Template).Option"] = func(fr *frame, args []value) value { return args[0] }
	externals["(*text/template.Template).Funcs"] = func(fr *frame, args []value) value {
		t := tmplOf(args[0])
		if m, ok := args[1].(*smap); ok && m != nil {
			for _, e := range m.ents {
				if !e.dead {
					if k, ok := e.k.(string); ok {
						t.funcs[k] = true
						t.fnVals[k] = e.v
					}
				}
			}
		}
		return args[0]
	}
	externals["(*text/template.Template).Parse"] = func(fr *frame, args []value) value {
		t := tmplOf(args[0])
		t.src = concStr(args[1], "template.Parse")
		fm := template.FuncMap{}
		for k := range t.funcs {
			fm[k] = func(...interface{}) string { return "" }
		}
		nt, err := template.New(t.name).Funcs(fm).Parse(t.src)
		if err != nil {
			return tuple{(*value)(nil), fr.i.errValue(err)}
		}
		t.tree = nt.Tree
		return tuple{args[0], iface{}}
	}
	externals["(*text/template.Template).Execute"] = func(fr *frame, args []value) value {
		t := tmplOf(args[0])
		x := fr.i.x
		if out, ferr, ok := fr.i.tmplEval(fr, t, args[2]); ok {
			if ferr != nil {
				return ferr
			}
			r := fr.i.writerWriteBytes(fr, args[1], out)
			if tup, ok := r.(tuple); ok && len(tup) == 2 {
				return tup[1]
			}
			return iface{}
		}
		out := t.src
		if strings.Contains(t.src, "{{") {
			if x.choose(2, "template.Execute outcome") == 1 {
				return fr.i.newError("template: " + t.name + ": execution failed (stub)")
			}
			out = "<expanded:" + t.name + ">"
		}
		r := fr.i.writerWrite(fr, args[1], out)
		if tup, ok := r.(tuple); ok && len(tup) == 2 {
			return tup[1]
		}
		return iface{}
	}
	externals["(*text/template.Template).Clone"] = func(fr *frame, args []value) value {
		t := tmplOf(args[0])
		c := *t // the clone shares the function values, as the library's does
		c.funcs = map[string]bool{}
		c.fnVals = map[string]value{}
		for k, v := range t.funcs {
			c.funcs[k] = v
		}
		for k, v := range t.fnVals {
			c.fnVals[k] = v
		}
		cell := value(&c)
		return tuple{&cell, iface{}}
	}
	externals["(*text/template.Template).Name"] = func(fr *frame, args []value) value { return tmplOf(args[0]).name }
}

var _ = token.NoPos
var _ = types.Typ

// tmplEval evaluates a template of the simple fragment; ok=false when the
// template is outside it (the caller falls back to the contract stub).
func (i *interpreter) tmplEval(fr *frame, t *nativeTmpl, data value) (out []value, failure value, ok bool) {
	if t.tree == nil || t.tree.Root == nil {
		return nil, nil, false
	}
	defer func() {
		if r := recover(); r != nil {
			switch r := r.(type) {
			case errTmplOpaque:
				out, failure, ok = nil, nil, false
			case tmplFailure:
				out, failure, ok = nil, r.err, true
			default:
				panic(r)
			}
		}
	}()
	// first pass: is every node in the fragment?  (no side effects before
	// the decision, so the fallback sees an untouched state)
	for _, n := range t.tree.Root.Nodes {
		switch n := n.(type) {
		case *parse.TextNode:
		case *parse.ActionNode:
			if len(n.Pipe.Decl) != 0 || len(n.Pipe.Cmds) == 0 {
				return nil, nil, false
			}
			for ci, c := range n.Pipe.Cmds {
				if !i.tmplCmdSupported(t, c, ci == 0) {
					return nil, nil, false
				}
			}
		default:
			return nil, nil, false
		}
	}
	for _, n := range t.tree.Root.Nodes {
		switch n := n.(type) {
		case *parse.TextNode:
			out = append(out, strBytes(string(n.Text))...)
		case *parse.ActionNode:
			var cur value
			for ci, c := range n.Pipe.Cmds {
				cur = i.tmplCmd(fr, t, c, ci == 0, cur, data)
			}
			out = append(out, i.tmplPrint(fr, cur)...)
		}
	}
	return out, nil, true
}

func (i *interpreter) tmplFn(t *nativeTmpl, name string) (value, bool) {
	v, ok := t.fnVals[name]
	if !ok {
		return nil, false
	}
	if it, isIface := v.(iface); isIface { // FuncMap is map[string]any
		v = it.v
	}
	switch v.(type) {
	case *closure, *ssa.Function:
		return v, true
	}
	return nil, false
}

func (i *interpreter) tmplCmdSupported(t *nativeTmpl, c *parse.CommandNode, first bool) bool {
	if len(c.Args) != 1 {
		return false
	}
	switch a := c.Args[0].(type) {
	case *parse.FieldNode:
		return first && len(a.Ident) == 1
	case *parse.IdentifierNode:
		fn, ok := i.tmplFn(t, a.Ident)
		if !ok {
			return false
		}
		sig := fnSignature(fn)
		if sig == nil {
			return false
		}
		want := 1
		if first {
			want = 0
		}
		return sig.Params().Len() == want && !sig.Variadic()
	case *parse.ChainNode:
		id, ok := a.Node.(*parse.IdentifierNode)
		if !ok || !first || len(a.Field) != 1 {
			return false
		}
		if a.Field[0] != "Unix" && a.Field[0] != "UnixNano" {
			return false
		}
		fn, ok := i.tmplFn(t, id.Ident)
		if !ok {
			return false
		}
		sig := fnSignature(fn)
		return sig != nil && sig.Params().Len() == 0 && sig.Results().Len() == 1 && sig.Results().At(0).Type().String() == "time.Time"
	}
	return false
}

func fnSignature(fn value) *types.Signature {
	switch f := fn.(type) {
	case *closure:
		return f.Fn.Signature
	case *ssa.Function:
		return f.Signature
	}
	return nil
}

func (i *interpreter) tmplCall(fr *frame, fn value, args []value) value {
	r := call(i, fr, token.NoPos, fn, args)
	if tup, ok := r.(tuple); ok {
		if len(tup) == 2 {
			if e, ok := tup[1].(iface); ok && e.t != nil {
				panic(tmplFailure{tup[1]})
			}
			return tup[0]
		}
		panic(errTmplOpaque{"function result arity"})
	}
	return r
}

func (i *interpreter) tmplCmd(fr *frame, t *nativeTmpl, c *parse.CommandNode, first bool, prev value, data value) value {
	switch a := c.Args[0].(type) {
	case *parse.FieldNode:
		d, ok := data.(iface)
		if !ok {
			panic(unsupported("template data is not an interface"))
		}
		m, ok := d.v.(*smap)
		if !ok {
			panic(unsupported(fmt.Sprintf("template data is %T, want map[string]string", d.v)))
		}
		if v, ok := m.lookup(i, a.Ident[0]); ok {
			return v
		}
		return "" // missingkey=zero over map[string]string
	case *parse.IdentifierNode:
		fn, _ := i.tmplFn(t, a.Ident)
		if first {
			return i.tmplCall(fr, fn, nil)
		}
		return i.tmplCall(fr, fn, []value{prev})
	case *parse.ChainNode:
		id := a.Node.(*parse.IdentifierNode)
		fn, _ := i.tmplFn(t, id.Ident)
		tv := i.tmplCall(fr, fn, nil)
		if a.Field[0] == "Unix" {
			return extTimeUnixSec(fr, []value{tv})
		}
		return timeNs(tv)
	}
	panic(errTmplOpaque{"command"})
}

func (i *interpreter) tmplPrint(fr *frame, v value) []value {
	switch v := v.(type) {
	case string:
		return strBytes(v)
	case symStr:
		return append([]value{}, v.b...)
	case int64, int, sym:
		return strBytes(strconv.FormatInt(concInt(fr, v, "template: printing an integer"), 10))
	}
	panic(unsupported(fmt.Sprintf("template: printing a %T", v)))
}

// writerWriteBytes calls w.Write(b) on an io.Writer value.
func (i *interpreter) writerWriteBytes(fr *frame, w value, b []value) value {
	it := w.(iface)
	if it.t == nil {
		panic(nilDeref())
	}
	sel := i.prog.MethodSets.MethodSet(it.t).Lookup(nil, "Write")
	if sel == nil {
		panic(unsupported("write to a non-writer"))
	}
	return call(i, fr, token.NoPos, i.prog.MethodValue(sel), []value{it.v, b})
}
