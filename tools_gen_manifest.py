#!/usr/bin/env python3
"""Regenerates MANIFEST.json from harness/registry/*.json and manifest_meta.json."""
import json, glob, os
V = os.path.dirname(os.path.abspath(__file__))
meta = json.load(open(os.path.join(V, 'manifest_meta.json')))
props = [json.loads(l)['id'] for l in open(os.path.join(V, 'properties.jsonl'))]
obs = []
for f in sorted(glob.glob(os.path.join(V, 'harness/registry/*.json'))):
    obs += json.load(open(f))
claimed = {}
for o in obs:
    for p in [o['property']] + o.get('also', []):
        claimed.setdefault(p, {'quick': False, 'thorough': False})
        for t in o['tiers']:
            claimed[p][t] = True
def technique(p):
    mine = [o for o in obs if p in [o['property']] + o.get('also', [])]
    solvers = sorted({o.get('solver', 'z3') for o in mine})
    t = ('bounded symbolic execution of the go/ssa of /repo (own interpreter, regenerated from the working tree on every run) '
         'with SMT (' + ', '.join(solvers) + ') discharge of path feasibility and assertions over all symbolic inputs within the stated bounds; '
         'counterexamples replayed natively against the real build')
    pools = [o['name'] for o in mine if any(w in (o.get('bounds', '') + ' ' + ' '.join(o.get('assumptions', []))).lower() for w in ('pool', 'concrete'))]
    if pools:
        t += ('; in the obligations ' + ', '.join(sorted(set(pools))) + ' part or all of the input is drawn from finite pools of concrete values '
              '(library conversions the engine does not encode run natively), every member of which is explored: there the claim is exhaustive over the pool, not over all values')
    return t


checks, na = [], []
for p in props:
    m = meta['properties'].get(p, {})
    if p in claimed and claimed[p]['quick'] and not m.get('not_applicable'):
        c = {
            'property_id': p,
            'quick_cmd': f'./bin/vcheck run --property {p} --tier quick',
            'evidence_file': f'/verif/evidence/{p}.json',
            'replay_cmd_template': './bin/vcheck replay {path}',
            'engine': 'gosym',
            'level_claimed': {'category': 'model_checking', 'text': m.get('text', ''), 'design_ref': m.get('design_ref', 'DESIGN.md section 7')},
            'level_note': m.get('note', ''),
            'technique': technique(p),
        }
        if claimed[p]['thorough']:
            c['thorough_cmd'] = f'./bin/vcheck run --property {p} --tier thorough'
        checks.append(c)
    else:
        na.append({'property_id': p, 'reason': m.get('not_applicable', 'check not built yet (work in progress)')})
man = {
    'version': 1,
    'setup_cmd': meta['setup_cmd'],
    'hooks': meta['hooks'],
    'engines': meta['engines'],
    'checks': checks,
    'notes': meta['notes'],
    'not_applicable': na,
}
json.dump(man, open(os.path.join(V, 'MANIFEST.json'), 'w'), indent=1)
print('checks', len(checks), 'not_applicable', len(na))
