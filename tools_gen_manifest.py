#!/usr/bin/env python3
"""Regenerates MANIFEST.json from harness/registry/*.json and manifest_meta.json."""
import json, glob, os
V = os.path.dirname(os.path.abspath(__file__))
meta = json.load(open(os.path.join(V, 'manifest_meta.json')))
props = [json.loads(l)['id'] for l in open(os.path.join(V, 'properties.jsonl'))]
obs = []
for f in sorted(glob.glob(os.path.join(V, 'harness/registry/*.json'))):
    obs += json.load(open(f))
claimed = {}
for o in obs:
    for p in [o['property']] + o.get('also', []):
        claimed.setdefault(p, {'quick': False, 'thorough': False})
        for t in o['tiers']:
            claimed[p][t] = True
checks, na = [], []
for p in props:
    m = meta['properties'].get(p, {})
    if p in claimed and claimed[p]['quick'] and not m.get('not_applicable'):
        c = {
            'property_id': p,
            'quick_cmd': f'./bin/vcheck run --property {p} --tier quick',
            'evidence_file': f'/verif/evidence/{p}.json',
            'replay_cmd_template': './bin/vcheck replay {path}',
            'engine': 'gosym',
            'level_claimed': {'category': 'model_checking', 'text': m.get('text', ''), 'design_ref': m.get('design_ref', 'DESIGN.md section 7')},
            'level_note': m.get('note', ''),
            'technique': 'bounded symbolic execution of the go/ssa of /repo (own interpreter) with SMT (z3) discharge of path conditions and assertions; counterexamples replayed natively',
        }
        if claimed[p]['thorough']:
            c['thorough_cmd'] = f'./bin/vcheck run --property {p} --tier thorough'
        checks.append(c)
    else:
        na.append({'property_id': p, 'reason': m.get('not_applicable', 'check not built yet (work in progress)')})
man = {
    'version': 1,
    'setup_cmd': meta['setup_cmd'],
    'hooks': meta['hooks'],
    'engines': meta['engines'],
    'checks': checks,
    'notes': meta['notes'],
    'not_applicable': na,
}
json.dump(man, open(os.path.join(V, 'MANIFEST.json'), 'w'), indent=1)
print('checks', len(checks), 'not_applicable', len(na))
